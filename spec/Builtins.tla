----------------------------- MODULE Builtins -----------------------------
(***************************************************************************)
(* The native builtins of gojq (func.go, operator.go) as functions over the *)
(* value model.  Native(name, x, args) returns VOk(<<values>>), VErr(v) or   *)
(* VOom: "the model does not decide this call" (opaque doubles, natives not  *)
(* transcribed, magnitude guards).  jq-defined builtins are NOT here: their  *)
(* builtin.jq text is evaluated by JqSem.                                   *)
(***************************************************************************)
EXTENDS JsonValue, Text
FM == INSTANCE Formats

\* results ------------------------------------------------------------------
NoErr == [k |-> "none"]
ErrV(v) == [k |-> "err", v |-> v]           \* a catchable error carrying v
Brk(l) == [k |-> "brk", l |-> l]            \* break $label (never caught by try)
HaltE(v, c) == [k |-> "halt", v |-> v, c |-> c]
OOM == [k |-> "oom"]                        \* out of model
Opaque == [t |-> "opaque"]                  \* message text of a native error: a string the model does not spell

VOk(vs) == [o |-> vs, e |-> NoErr]
V1(v) == [o |-> <<v>>, e |-> NoErr]
VErr(v) == [o |-> <<>>, e |-> ErrV(v)]
VTypeErr == VErr(Opaque)
VOom == [o |-> <<>>, e |-> OOM]

\* small-integer views -------------------------------------------------------
\* toInt of gojq: float truncates toward zero, big saturates.  -> [ok, n] with n
\* clamped into the small range (enough for every index computation: container
\* sizes in the model are tiny).
BigPos == 1000000000
ToIntLike(v) ==
  CASE v.t = "num" -> [ok |-> TRUE, n |-> v.n]
    [] v.t = "big" -> [ok |-> TRUE, n |-> IF v.neg THEN 0 - BigPos ELSE BigPos]
    [] v.t = "frac" -> [ok |-> TRUE, n |-> TruncDiv(v.n, v.d)]
    [] v.t = "float" -> (CASE v.f = "inf" -> [ok |-> TRUE, n |-> BigPos]
                           [] v.f = "-inf" -> [ok |-> TRUE, n |-> 0 - BigPos]
                           [] v.f = "nan" -> [ok |-> FALSE, n |-> 0, oom |-> TRUE]   \* int(NaN) is platform defined
                           [] "iz" \in DOMAIN v -> [ok |-> TRUE, n |-> IF v.iz.neg THEN 0 - BigPos ELSE BigPos]   \* a double >= 2^53 with its exact value: int(x), saturating at +-2^63 (func.go floatToInt)
                           [] OTHER -> [ok |-> FALSE, n |-> 0, oom |-> TRUE])
    [] OTHER -> [ok |-> FALSE, n |-> 0]
IsOomInt(r) == "oom" \in DOMAIN r
\* toIntCeil: ceil for floats
ToIntCeilLike(v) == IF v.t = "frac" THEN [ok |-> TRUE, n |-> FloorDiv(v.n, v.d) + 1] ELSE ToIntLike(v)

ClampIndex(i, mn, mx) == LET j == IF i < 0 THEN i + mx ELSE i IN IF j < mn THEN mn ELSE IF j < mx THEN j ELSE mx

\* arithmetic ---------------------------------------------------------------
SmallMulOK(a, b) == Abs(a) < 32768 /\ Abs(b) < 32768
IntAdd(a, b) == IF a.t = "num" /\ b.t = "num" /\ Abs(a.n + b.n) < 1073741824 THEN Num(a.n + b.n) ELSE FromZ(ZAdd(ToZ(a), ToZ(b)))
IntSub(a, b) == IF a.t = "num" /\ b.t = "num" /\ Abs(a.n - b.n) < 1073741824 THEN Num(a.n - b.n) ELSE FromZ(ZSub(ToZ(a), ToZ(b)))
IntMul(a, b) == IF a.t = "num" /\ b.t = "num" /\ SmallMulOK(a.n, b.n) THEN Num(a.n * b.n) ELSE FromZ(ZMul(ToZ(a), ToZ(b)))
IntNeg(a) == IF a.t = "num" THEN Num(0 - a.n) ELSE FromZ(ZNeg(ToZ(a)))
IntIsZero(a) == a.t = "num" /\ a.n = 0

\* rational arithmetic on small dyadic rationals; result guard
RatOK(n, d) == Abs(n) < 33554432 /\ d <= 4096
RatAdd(a, b) == LET d == IF DenomOf(a) > DenomOf(b) THEN DenomOf(a) ELSE DenomOf(b)
                    n == NumerOf(a) * (d \div DenomOf(a)) + NumerOf(b) * (d \div DenomOf(b))
                IN IF RatOK(n, d) THEN V1(MkFrac(n, d)) ELSE VOom
RatNeg(a) == IF a.t = "num" THEN Num(0 - a.n) ELSE [a EXCEPT !.n = 0 - a.n]
RatMul(a, b) == IF ~(Abs(NumerOf(a)) < 4096 /\ Abs(NumerOf(b)) < 4096 /\ DenomOf(a) * DenomOf(b) <= 4096) THEN VOom
                ELSE V1(MkFrac(NumerOf(a) * NumerOf(b), DenomOf(a) * DenomOf(b)))
IsPow2(n) == n \in {1, 2, 4, 8, 16, 32, 64, 128, 256, 512, 1024, 2048, 4096}

NumAdd(a, b) ==
  IF IsInt(a) /\ IsInt(b) THEN V1(IntAdd(a, b))
  ELSE IF a.t = "float" \/ b.t = "float" THEN
       (IF (a.t = "float" /\ a.f = "nan") \/ (b.t = "float" /\ b.f = "nan") THEN V1(NaN)
        ELSE IF a.t = "float" /\ b.t = "float" THEN (IF a.f \in {"inf", "-inf"} /\ b.f \in {"inf", "-inf"} THEN (IF a.f = b.f THEN V1(a) ELSE V1(NaN)) ELSE VOom)
        ELSE IF a.t = "float" /\ a.f \in {"inf", "-inf"} THEN V1(a)
        ELSE IF b.t = "float" /\ b.f \in {"inf", "-inf"} THEN V1(b)
        ELSE VOom)
  ELSE IF IsSmallRat(a) /\ IsSmallRat(b) THEN RatAdd(a, b)
  ELSE VOom
NumNeg(a) == CASE IsInt(a) -> V1(IntNeg(a))
               [] a.t = "frac" -> V1(RatNeg(a))
               [] a.f = "nan" -> V1(NaN)
               [] a.f = "inf" -> V1(NegInf)
               [] a.f = "-inf" -> V1(PosInf)
               [] OTHER -> VOom
NumSub(a, b) == LET nb == NumNeg(b) IN IF nb.e # NoErr THEN nb ELSE NumAdd(a, nb.o[1])
NumMul(a, b) ==
  IF IsInt(a) /\ IsInt(b) THEN V1(IntMul(a, b))
  ELSE IF a.t = "float" \/ b.t = "float" THEN VOom
  ELSE IF IsSmallRat(a) /\ IsSmallRat(b) THEN RatMul(a, b)
  ELSE VOom
\* division: exact when the remainder is zero, else a double
NumDiv(a, b) ==
  IF IsInt(a) /\ IsInt(b) THEN
     (IF IntIsZero(b) THEN VTypeErr
      ELSE LET r == ZDivMod(ToZ(a), ToZ(b)) IN
           IF ZIsZero(r.r) THEN V1(FromZ(r.q))
           ELSE IF a.t = "num" /\ b.t = "num" /\ IsPow2(Abs(b.n)) /\ Abs(a.n) < 33554432
                THEN V1(MkFrac(IF b.n < 0 THEN 0 - a.n ELSE a.n, Abs(b.n)))
                ELSE VOom)
  ELSE IF a.t = "float" \/ b.t = "float" THEN VOom
  ELSE IF IsSmallRat(a) /\ IsSmallRat(b) THEN
       \* (na/da) / (nb/db) = na*db / (da*nb): dyadic iff |nb| is a power of two
       (IF NumerOf(b) = 0 THEN VTypeErr
        ELSE IF IsPow2(Abs(NumerOf(b))) /\ Abs(NumerOf(a)) < 4096 /\ DenomOf(b) <= 4096 /\ DenomOf(a) * Abs(NumerOf(b)) <= 4096
             THEN V1(MkFrac((IF NumerOf(b) < 0 THEN 0 - NumerOf(a) ELSE NumerOf(a)) * DenomOf(b), DenomOf(a) * Abs(NumerOf(b))))
             ELSE VOom)
  ELSE VOom
\* modulo: integers exactly; doubles are truncated to int first
\* func.go floatToInt: int(x) for MinInt <= x < 2^63, MaxInt above, MinInt below (x: a double given with its exact integer value, a small int or a small dyadic rational)
BnTwo63 == [neg |-> FALSE, d |-> <<9,2,2,3,3,7,2,0,3,6,8,5,4,7,7,5,8,0,8>>]
BnFloatToIntZ(v) ==
  IF v.t = "float" THEN
       (IF ZCmp(v.iz, BnTwo63) >= 0 THEN ZSub(BnTwo63, ZFromInt(1))
        ELSE IF ZCmp(v.iz, ZNeg(BnTwo63)) < 0 THEN ZNeg(BnTwo63)
        ELSE v.iz)
  ELSE ZFromInt(TruncDiv(NumerOf(v), DenomOf(v)))
BnIsBigFloat(v) == v.t = "float" /\ "iz" \in DOMAIN v
NumMod(a, b) ==
  IF IsInt(a) /\ IsInt(b) THEN
     (IF IntIsZero(b) THEN VTypeErr ELSE V1(FromZ(ZDivMod(ToZ(a), ToZ(b)).r)))
  ELSE IF (BnIsBigFloat(a) \/ BnIsBigFloat(b)) /\ (BnIsBigFloat(a) \/ a.t \in {"num", "frac"}) /\ (BnIsBigFloat(b) \/ b.t \in {"num", "frac"}) THEN
       \* the float64 branch of funcOpMod: both operands through floatToInt, then Go's truncated remainder
       LET x == BnFloatToIntZ(a)  y == BnFloatToIntZ(b)
       IN IF ZIsZero(y) THEN VTypeErr ELSE V1(FromZ(ZDivMod(x, y).r))
  ELSE IF a.t = "float" \/ b.t = "float" THEN
       (IF (a.t = "float" /\ a.f = "nan") \/ (b.t = "float" /\ b.f = "nan") THEN V1(NaN) ELSE VOom)
  ELSE IF a.t = "big" \/ b.t = "big" THEN VOom
  ELSE LET x == TruncDiv(NumerOf(a), DenomOf(a))
           y == TruncDiv(NumerOf(b), DenomOf(b))
       IN IF y = 0 THEN VTypeErr
          ELSE LET m == Abs(x) % Abs(y) IN V1(Num(IF x < 0 THEN 0 - m ELSE m))

RECURSIVE ObjMerge(_, _, _)
ObjMerge(o, p, i) == IF i > Len(p) THEN o ELSE ObjMerge(ObjPut(o, p[i][1], p[i][2]), p, i + 1)
RECURSIVE DeepMerge(_, _)
DeepMerge(o, p) ==
  LET RECURSIVE M(_, _)
      M(acc, i) == IF i > Len(p) THEN acc
                   ELSE LET k == p[i][1]  v == p[i][2]
                            cur == ObjGet(acc, k)
                            nv == IF ObjHas(acc, k) /\ cur.t = "obj" /\ v.t = "obj" THEN Obj(DeepMerge(cur.o, v.o)) ELSE v
                        IN M(ObjPut(acc, k, nv), i + 1)
  IN M(o, 1)

RECURSIVE RepeatCp(_, _)
RepeatCp(s, n) == IF n <= 0 THEN <<>> ELSE s \o RepeatCp(s, n - 1)
\* string * number (repeatString): n <= 0 (or NaN) -> null ; c = int(n) repetitions
StrRepeat(s, n) ==
  CASE n.t = "float" -> (IF n.f \in {"nan", "-inf"} THEN V1(Null) ELSE VOom)
    [] n.t = "big" -> (IF n.neg THEN V1(Null) ELSE (IF Len(s) = 0 THEN V1(Str(<<>>)) ELSE VTypeErr))
    [] OTHER -> LET neg == NumerOf(n) < 0
                    c == TruncDiv(NumerOf(n), DenomOf(n))
                IN IF neg THEN V1(Null)
                   ELSE IF c * Len(s) > 4000 THEN VOom
                   ELSE V1(Str(RepeatCp(s, c)))

\* split a code-point string on a separator (strings.Split semantics)
RECURSIVE SplitCp(_, _)
SplitCp(s, sep) ==
  IF Len(sep) = 0 THEN [i \in 1..Len(s) |-> <<s[i]>>]       \* explode into characters (valid UTF-8 only)
  ELSE LET i == FindCp(s, sep, 1) IN
       IF i = 0 THEN <<s>> ELSE <<SubSeq(s, 1, i - 1)>> \o SplitCp(SubSeq(s, i + Len(sep), Len(s)), sep)

ArrMinus(a, b) ==
  LET In(x) == \E j \in 1..Len(b) : Cmp(x, b[j]) = 0
      RECURSIVE F(_)
      F(i) == IF i > Len(a) THEN <<>> ELSE (IF In(a[i]) THEN <<>> ELSE <<a[i]>>) \o F(i + 1)
  IN F(1)

Arith(op, a, b) ==
  CASE op = "_add" ->
         (CASE a.t = "null" -> V1(b)
            [] b.t = "null" -> V1(a)
            [] IsNumber(a) /\ IsNumber(b) -> NumAdd(a, b)
            [] a.t = "str" /\ b.t = "str" -> V1(Str(a.s \o b.s))
            [] a.t = "arr" /\ b.t = "arr" -> V1(Arr(a.a \o b.a))
            [] a.t = "obj" /\ b.t = "obj" -> V1(Obj(ObjMerge(a.o, b.o, 1)))
            [] OTHER -> VTypeErr)
    [] op = "_subtract" ->
         (CASE IsNumber(a) /\ IsNumber(b) -> NumSub(a, b)
            [] a.t = "arr" /\ b.t = "arr" -> (IF Known(a) /\ Known(b) THEN V1(Arr(ArrMinus(a.a, b.a))) ELSE VOom)
            [] OTHER -> VTypeErr)
    [] op = "_multiply" ->
         (CASE IsNumber(a) /\ IsNumber(b) -> NumMul(a, b)
            [] a.t = "obj" /\ b.t = "obj" -> V1(Obj(DeepMerge(a.o, b.o)))
            [] a.t = "str" /\ IsNumber(b) -> StrRepeat(a.s, b)
            [] IsNumber(a) /\ b.t = "str" -> StrRepeat(b.s, a)
            [] OTHER -> VTypeErr)
    [] op = "_divide" ->
         (CASE IsNumber(a) /\ IsNumber(b) -> NumDiv(a, b)
            [] a.t = "str" /\ b.t = "str" ->
                 (IF Len(a.s) = 0 THEN V1(EmptyArr)
                  ELSE LET ps == SplitCp(a.s, b.s) IN V1(Arr([i \in 1..Len(ps) |-> Str(ps[i])])))
            [] OTHER -> VTypeErr)
    [] op = "_modulo" ->
         (CASE IsNumber(a) /\ IsNumber(b) -> NumMod(a, b)
            [] OTHER -> VTypeErr)
    [] op = "_alternative" -> V1(IF Truthy(a) THEN a ELSE b)
    [] OTHER ->   \* comparisons
         IF ~(Known(a) /\ Known(b)) THEN VOom
         ELSE LET c == Cmp(a, b) IN
              CASE op = "_equal" -> V1(Bool(c = 0))
                [] op = "_notequal" -> V1(Bool(c # 0))
                [] op = "_less" -> V1(Bool(c < 0))
                [] op = "_lesseq" -> V1(Bool(c <= 0))
                [] op = "_greater" -> V1(Bool(c > 0))
                [] op = "_greatereq" -> V1(Bool(c >= 0))
                [] OTHER -> VOom
ArithOps == {"_add", "_subtract", "_multiply", "_divide", "_modulo", "_alternative",
             "_equal", "_notequal", "_less", "_lesseq", "_greater", "_greatereq"}

\* indexing and slicing -----------------------------------------------------
ArrIndices(vs, xs) ==     \* indices(vs; xs) on arrays
  IF Len(xs) = 0 THEN <<>>
  ELSE LET RECURSIVE F(_)
           F(i) == IF i + Len(xs) - 1 > Len(vs) THEN <<>>
                   ELSE (IF Cmp(Arr(SubSeq(vs, i, i + Len(xs) - 1)), Arr(xs)) = 0 THEN <<Num(i - 1)>> ELSE <<>>) \o F(i + 1)
       IN F(1)

\* slice(v; end; start) with the clamping of func.go
SliceOf(v, e, s) ==
  IF v.t = "null" THEN V1(Null)
  ELSE IF v.t \notin {"arr", "str"} THEN VTypeErr
  ELSE LET l == IF v.t = "arr" THEN Len(v.a) ELSE Len(v.s)
           si == IF s.t = "null" THEN [ok |-> TRUE, n |-> 0] ELSE ToIntLike(s)
       IN IF IsOomInt(si) THEN VOom ELSE IF ~si.ok THEN VTypeErr
          ELSE LET start == IF s.t = "null" THEN 0 ELSE ClampIndex(si.n, 0, l)
                   ei == IF e.t = "null" THEN [ok |-> TRUE, n |-> l] ELSE ToIntCeilLike(e)
               IN IF IsOomInt(ei) THEN VOom ELSE IF ~ei.ok THEN VTypeErr
                  ELSE LET end == IF e.t = "null" THEN l ELSE ClampIndex(ei.n, start, l)
                       IN IF v.t = "arr" THEN V1(Arr(SubSeq(v.a, start + 1, end)))
                          ELSE V1(Str(SubSeq(v.s, start + 1, end)))

\* _index(v; x) = v[x]
IndexOf(v, x) ==
  CASE x.t = "str" -> (CASE v.t = "null" -> V1(Null)
                         [] v.t = "obj" -> V1(ObjGet(v.o, x.s))
                         [] OTHER -> VTypeErr)
    [] IsNumber(x) ->
         (IF v.t = "null" THEN V1(Null)
          ELSE IF v.t \notin {"arr", "str"} THEN VTypeErr
          ELSE LET r == ToIntLike(x) IN
               IF IsOomInt(r) THEN VOom
               ELSE LET l == IF v.t = "arr" THEN Len(v.a) ELSE Len(v.s)
                        i == ClampIndex(r.n, -1, l)
                    IN IF 0 <= i /\ i < l THEN V1(IF v.t = "arr" THEN v.a[i + 1] ELSE Str(<<v.s[i + 1]>>)) ELSE V1(Null))
    [] x.t = "arr" -> (CASE v.t = "null" -> V1(Null)
                         [] v.t = "arr" -> (IF Known(v) /\ Known(x) THEN V1(Arr(ArrIndices(v.a, x.a))) ELSE VOom)
                         [] OTHER -> VTypeErr)
    [] x.t = "obj" -> (IF v.t = "null" THEN V1(Null)
                       ELSE IF ~ObjHas(x.o, CpOf(<<"s","t","a","r","t">>)) \/ ~ObjHas(x.o, CpOf(<<"e","n","d">>)) THEN VTypeErr
                       ELSE SliceOf(v, ObjGet(x.o, CpOf(<<"e","n","d">>)), ObjGet(x.o, CpOf(<<"s","t","a","r","t">>))))
    [] OTHER -> VTypeErr

\* paths: getpath / setpath / delpaths under value semantics -----------------
RECURSIVE GetPath(_, _, _)
GetPath(v, p, i) ==
  IF i > Len(p) THEN V1(v)
  ELSE IF v.t \notin {"null", "arr", "obj", "str"} THEN VTypeErr      \* strings: indexed and sliced like by the access itself (fix D26)
  ELSE LET r == IndexOf(v, p[i]) IN IF r.e # NoErr THEN r ELSE GetPath(r.o[1], p, i + 1)

Nulls(n) == [i \in 1..n |-> Null]
\* Hole marks "to be deleted" (the struct{}{} of func.go)
Hole == [t |-> "hole"]
SliceBounds(v, m) ==    \* v an array value or null; m the {start,end} object -> [ok, s, e] or error marker
  LET l == IF v.t = "arr" THEN Len(v.a) ELSE 0
      s == ObjGet(m.o, CpOf(<<"s","t","a","r","t">>))
      e == ObjGet(m.o, CpOf(<<"e","n","d">>))
      si == IF s.t = "null" THEN [ok |-> TRUE, n |-> 0] ELSE ToIntLike(s)
      start == IF s.t = "null" THEN 0 ELSE ClampIndex(si.n, 0, l)
      ei == IF e.t = "null" THEN [ok |-> TRUE, n |-> l] ELSE ToIntCeilLike(e)
      end == IF e.t = "null" THEN l ELSE ClampIndex(ei.n, start, l)
  IN IF ~ObjHas(m.o, CpOf(<<"s","t","a","r","t">>)) \/ ~ObjHas(m.o, CpOf(<<"e","n","d">>)) THEN [k |-> "err"]
     ELSE IF IsOomInt(si) \/ IsOomInt(ei) THEN [k |-> "oom"]
     ELSE IF ~si.ok \/ ~ei.ok THEN [k |-> "err"]
     ELSE [k |-> "ok", s |-> start, e |-> end]

RECURSIVE Update(_, _, _, _)
\* update(v, path from index i, n): returns VOk(<<value>>) / error.  n = Hole means delete-marking.
Update(v, p, i, n) ==
  IF i > Len(p) THEN V1(n)
  ELSE LET k == p[i] IN
  IF v.t = "hole" /\ (k.t = "str" \/ IsNumber(k) \/ k.t = "obj") THEN V1(v)
  ELSE
  CASE k.t = "str" ->
         (IF v.t \notin {"null", "obj"} THEN VTypeErr
          ELSE LET o == IF v.t = "null" THEN <<>> ELSE v.o IN
               IF ~ObjHas(o, k.s) /\ n.t = "hole" THEN V1(v)
               ELSE LET u == Update(ObjGet(o, k.s), p, i + 1, n) IN
                    IF u.e # NoErr THEN u ELSE V1(Obj(ObjPut(o, k.s, u.o[1]))))
    [] IsNumber(k) ->
         (IF v.t \notin {"null", "arr"} THEN VTypeErr
          ELSE LET a == IF v.t = "null" THEN <<>> ELSE v.a
                   r == ToIntLike(k)
               IN IF IsOomInt(r) THEN VOom
                  ELSE LET j == ClampIndex(r.n, -1, Len(a)) IN
                       IF j < 0 THEN (IF n.t = "hole" THEN V1(v) ELSE VTypeErr)
                       ELSE IF j >= Len(a) /\ n.t = "hole" THEN V1(v)
                       ELSE IF j >= Len(a) /\ r.n > 200 THEN (IF r.n >= 536870912 THEN VTypeErr ELSE VOom)
                       ELSE LET idx == IF j < Len(a) THEN j ELSE r.n
                                x == IF j < Len(a) THEN a[j + 1] ELSE Null
                                u == Update(x, p, i + 1, n)
                            IN IF u.e # NoErr THEN u
                               ELSE LET a2 == IF idx < Len(a) THEN a ELSE a \o Nulls(idx + 1 - Len(a))
                                    IN V1(Arr([a2 EXCEPT ![idx + 1] = u.o[1]])))
    [] k.t = "obj" ->
         (IF v.t \notin {"null", "arr"} THEN VTypeErr
          ELSE LET a == IF v.t = "null" THEN <<>> ELSE v.a
                   b == SliceBounds(v, k)
               IN IF b.k = "err" THEN VTypeErr ELSE IF b.k = "oom" THEN VOom
                  ELSE IF b.s = b.e /\ n.t = "hole" THEN V1(v)
                  ELSE LET u == Update(Arr(SubSeq(a, b.s + 1, b.e)), p, i + 1, n) IN
                       IF u.e # NoErr THEN u
                       ELSE IF u.o[1].t = "arr" THEN V1(Arr(SubSeq(a, 1, b.s) \o u.o[1].a \o SubSeq(a, b.e + 1, Len(a))))
                       ELSE IF u.o[1].t = "hole" THEN V1(Arr([j \in 1..Len(a) |-> IF j > b.s /\ j <= b.e THEN Hole ELSE a[j]]))
                       ELSE VTypeErr)
    [] OTHER -> VTypeErr

SetPath(v, p, n) == IF p.t # "arr" THEN VTypeErr ELSE Update(v, p.a, 1, n)

RECURSIVE Sweep(_)
Sweep(v) ==
  CASE v.t = "hole" -> Null
    [] v.t = "arr" -> Arr(LET RECURSIVE F(_)
                              F(i) == IF i > Len(v.a) THEN <<>> ELSE (IF v.a[i].t = "hole" THEN <<>> ELSE <<Sweep(v.a[i])>>) \o F(i + 1)
                          IN F(1))
    [] v.t = "obj" -> Obj(LET RECURSIVE F(_)
                              F(i) == IF i > Len(v.o) THEN <<>> ELSE (IF v.o[i][2].t = "hole" THEN <<>> ELSE << <<v.o[i][1], Sweep(v.o[i][2])>> >>) \o F(i + 1)
                          IN F(1))
    [] OTHER -> v

DelPaths(v, ps) ==
  IF ps.t # "arr" THEN VTypeErr
  ELSE IF Len(ps.a) = 0 THEN V1(v)
  ELSE LET RECURSIVE F(_, _)
           F(u, i) == IF i > Len(ps.a) THEN V1(Sweep(u))
                      ELSE IF ps.a[i].t # "arr" THEN VTypeErr
                      ELSE LET r == Update(u, ps.a[i].a, 1, Hole) IN IF r.e # NoErr THEN r ELSE F(r.o[1], i + 1)
       IN F(v, 1)

\* order-based natives -------------------------------------------------------
\* stable insertion sort of index list by keys
RECURSIVE InsertIdx(_, _, _, _)
InsertIdx(sorted, j, keys, pos) ==   \* insert index j after all elements <= it
  IF pos > Len(sorted) THEN Append(sorted, j)
  ELSE IF Cmp(keys[sorted[pos]], keys[j]) > 0 THEN SubSeq(sorted, 1, pos - 1) \o <<j>> \o SubSeq(sorted, pos, Len(sorted))
  ELSE InsertIdx(sorted, j, keys, pos + 1)
RECURSIVE SortIdx(_, _, _)
SortIdx(keys, j, acc) == IF j > Len(keys) THEN acc ELSE SortIdx(keys, j + 1, InsertIdx(acc, j, keys, 1))
SortedIdx(keys) == SortIdx(keys, 1, <<>>)
Sortable(keys) == \A i \in 1..Len(keys) : Known(keys[i]) /\ ~HasNaN(keys[i])

SortBy(vs, keys) == LET ix == SortedIdx(keys) IN [i \in 1..Len(ix) |-> vs[ix[i]]]
GroupBy(vs, keys) ==
  LET ix == SortedIdx(keys)
      RECURSIVE G(_, _)
      G(i, acc) == IF i > Len(ix) THEN acc
                   ELSE IF i > 1 /\ Cmp(keys[ix[i - 1]], keys[ix[i]]) = 0
                        THEN G(i + 1, [acc EXCEPT ![Len(acc)] = Arr(Append(acc[Len(acc)].a, vs[ix[i]]))])
                        ELSE G(i + 1, Append(acc, Arr(<<vs[ix[i]]>>)))
  IN G(1, <<>>)
UniqueBy(vs, keys) ==
  LET ix == SortedIdx(keys)
      RECURSIVE U(_)
      U(i) == IF i > Len(ix) THEN <<>>
              ELSE (IF i > 1 /\ Cmp(keys[ix[i - 1]], keys[ix[i]]) = 0 THEN <<>> ELSE <<vs[ix[i]]>>) \o U(i + 1)
  IN U(1)
\* min: first minimal; max: last maximal (minMaxBy)
MinMaxBy(vs, keys, isMin) ==
  IF Len(vs) = 0 THEN Null
  ELSE LET RECURSIVE F(_, _)
           F(i, j) == IF i > Len(keys) THEN vs[j]
                      ELSE IF (Cmp(keys[j], keys[i]) > 0) = isMin THEN F(i + 1, i) ELSE F(i + 1, j)
       IN F(2, 1)
\* bsearch: sort.Search semantics on an arbitrary (maybe unsorted) array
Bsearch(vs, t) ==
  LET RECURSIVE B(_, _)
      B(lo, hi) == IF lo >= hi THEN lo
                   ELSE LET h == (lo + hi) \div 2 IN
                        IF ~(Cmp(vs[h + 1], t) >= 0) THEN B(h + 1, hi) ELSE B(lo, h)
      i == B(0, Len(vs))
  IN IF i < Len(vs) /\ Cmp(vs[i + 1], t) = 0 THEN Num(i) ELSE Num(0 - i - 1)

\* containers ----------------------------------------------------------------
ValuesOf(v) == IF v.t = "arr" THEN v.a ELSE ObjVals(v.o)
RECURSIVE AddAll(_, _, _)
AddAll(vs, i, acc) ==
  IF i > Len(vs) THEN V1(acc)
  ELSE IF vs[i].t = "null" THEN AddAll(vs, i + 1, acc)
  ELSE LET r == Arith("_add", acc, vs[i]) IN IF r.e # NoErr THEN r ELSE AddAll(vs, i + 1, r.o[1])

RECURSIVE Flatten(_, _)
Flatten(vs, depth) ==     \* depth < 0 : unlimited
  LET RECURSIVE F(_)
      F(i) == IF i > Len(vs) THEN <<>>
              ELSE (IF vs[i].t = "arr" /\ depth # 0 THEN Flatten(vs[i].a, depth - 1) ELSE <<vs[i]>>) \o F(i + 1)
  IN F(1)

RECURSIVE Contains(_, _)
\* returns "t", "f", "err", "oom"
Contains(a, b) ==
  CASE IsNumber(a) /\ IsNumber(b) -> (IF Known(a) /\ Known(b) THEN (IF CmpNum(a, b) = 0 THEN "t" ELSE "f") ELSE "oom")
    [] a.t = "str" /\ b.t = "str" -> (IF FindCp(a.s, b.s, 1) # 0 \/ Len(b.s) = 0 THEN "t" ELSE "f")
    [] a.t = "arr" /\ b.t = "arr" ->
         (IF \E j \in 1..Len(b.a) : \E i \in 1..Len(a.a) : Contains(a.a[i], b.a[j]) = "oom" THEN "oom"
          ELSE IF \A j \in 1..Len(b.a) : \E i \in 1..Len(a.a) : Contains(a.a[i], b.a[j]) = "t" THEN "t" ELSE "f")
    [] a.t = "obj" /\ b.t = "obj" ->
         (IF Len(a.o) < Len(b.o) THEN "f"
          ELSE IF \E j \in 1..Len(b.o) : ObjHas(a.o, b.o[j][1]) /\ Contains(ObjGet(a.o, b.o[j][1]), b.o[j][2]) = "oom" THEN "oom"
          ELSE IF \A j \in 1..Len(b.o) : ObjHas(a.o, b.o[j][1]) /\ Contains(ObjGet(a.o, b.o[j][1]), b.o[j][2]) = "t" THEN "t" ELSE "f")
    [] OTHER -> (IF a = b /\ a.t \in {"null", "bool"} THEN "t" ELSE "err")

Transpose(vss) ==
  LET l == LET RECURSIVE M(_, _)
               M(i, m) == IF i > Len(vss) THEN m ELSE M(i + 1, IF Len(vss[i].a) > m THEN Len(vss[i].a) ELSE m)
           IN M(1, 0)
  IN [j \in 1..l |-> Arr([i \in 1..Len(vss) |-> IF j <= Len(vss[i].a) THEN vss[i].a[j] ELSE Null])]

\* range iterator: values from start while Compare(step,0)*Compare(value,end) < 0
RECURSIVE RangeSeq(_, _, _, _)
RangeSeq(v, end, step, fuel) ==
  IF fuel = 0 THEN [o |-> <<>>, e |-> OOM]
  ELSE IF ~(Known(v) /\ Known(end) /\ Known(step)) THEN VOom
  ELSE IF CmpNum(step, Num(0)) * CmpNum(v, end) >= 0 THEN VOk(<<>>)
  ELSE LET nx == NumAdd(v, step) IN
       IF nx.e # NoErr THEN [o |-> <<v>>, e |-> nx.e]
       ELSE LET rest == RangeSeq(nx.o[1], end, step, fuel - 1) IN [o |-> <<v>> \o rest.o, e |-> rest.e]

\* floor/ceil/... on the exact domain
MathExact(name, v) ==
  IF v.t = "big" THEN VOom            \* the functions go through float64: beyond 2^30 the model does not follow the rounding
  ELSE IF IsInt(v) THEN (CASE name \in {"floor", "ceil", "round", "trunc", "nearbyint", "rint"} -> V1(v)
                      [] name = "fabs" -> V1(IF IntSign(v) < 0 THEN IntNeg(v) ELSE v)
                      [] OTHER -> VOom)
  ELSE IF v.t = "frac" THEN
       (CASE name = "floor" -> V1(Num(FloorDiv(v.n, v.d)))
          [] name = "ceil" -> V1(Num(FloorDiv(v.n, v.d) + 1))
          [] name = "trunc" -> V1(Num(TruncDiv(v.n, v.d)))
          [] name = "fabs" -> V1([v EXCEPT !.n = Abs(v.n)])
          [] name = "round" ->     \* half away from zero
               V1(Num(IF v.n >= 0 THEN FloorDiv(2 * v.n + v.d, 2 * v.d) ELSE 0 - FloorDiv(2 * (0 - v.n) + v.d, 2 * v.d)))
          [] OTHER -> VOom)
  ELSE IF v.t = "float" THEN (IF name \in {"floor", "ceil", "round", "trunc", "nearbyint", "rint"} /\ v.f \in {"nan", "inf", "-inf"} THEN V1(v)
                              ELSE IF name = "fabs" /\ v.f \in {"inf", "-inf"} THEN V1(PosInf)
                              ELSE IF name = "fabs" /\ v.f = "nan" THEN V1(NaN) ELSE VOom)
  ELSE VTypeErr
MathNames == {"floor", "ceil", "round", "trunc", "nearbyint", "rint", "fabs"}
\* functions of the math library whose result is exact on small non-negative integers (IEEE sqrt is correctly rounded; Exp2, Log2, Frexp,
\* Logb, Modf and Pow with an integral exponent do no rounding on these arguments); everything else about them is typing only
RECURSIVE BnISqrt(_, _)
BnISqrt(n, r) == IF (r + 1) * (r + 1) > n THEN r ELSE BnISqrt(n, r + 1)
RECURSIVE BnILog2(_)
BnILog2(n) == IF n <= 1 THEN 0 ELSE 1 + BnILog2(n \div 2)
RECURSIVE BnP2(_)
BnP2(k) == IF k = 0 THEN 1 ELSE 2 * BnP2(k - 1)
RECURSIVE BnP10(_)
BnP10(k) == IF k = 0 THEN 1 ELSE 10 * BnP10(k - 1)
MathSmallNames == {"sqrt", "exp2", "exp10", "log2", "logb", "significand", "frexp", "modf"}
MathSmall(name, v) ==
  IF ~IsNumber(v) THEN VTypeErr
  ELSE IF v.t = "frac" /\ name = "modf" /\ v.n > 0 THEN LET fl == FloorDiv(v.n, v.d) IN V1(Arr(<<MkFrac(v.n - fl * v.d, v.d), Num(fl)>>))
  ELSE IF v.t # "num" \/ v.n < 0 \/ v.n > 1000000 THEN VOom
  ELSE LET n == v.n  k == BnILog2(n) IN
       CASE name = "sqrt" -> (LET r == BnISqrt(n, 0) IN IF r * r = n THEN V1(Num(r)) ELSE VOom)
         [] name = "exp2" -> (IF n <= 29 THEN V1(Num(BnP2(n))) ELSE VOom)
         [] name = "exp10" -> (IF n <= 9 THEN V1(Num(BnP10(n))) ELSE VOom)
         [] name = "log2" -> (IF n >= 1 /\ BnP2(k) = n THEN V1(Num(k)) ELSE VOom)
         [] name = "logb" -> (IF n >= 1 THEN V1(Num(k)) ELSE V1(NegInf))
         [] name = "significand" -> (IF n = 0 THEN V1(Num(0)) ELSE IF k <= 12 THEN V1(MkFrac(n, BnP2(k))) ELSE VOom)
         [] name = "frexp" -> (IF n = 0 THEN V1(Arr(<<Num(0), Num(0)>>)) ELSE IF k <= 11 THEN V1(Arr(<<MkFrac(n, BnP2(k + 1)), Num(k + 1)>>)) ELSE VOom)
         [] name = "modf" -> V1(Arr(<<Num(0), Num(n)>>))
         [] OTHER -> VOom
\* transcendental etc.: typing only
MathOpaque1 == {"sin","cos","tan","asin","acos","atan","sinh","cosh","tanh","asinh","acosh","atanh","significand",
                "sqrt","cbrt","exp","exp10","exp2","expm1","log","log10","log1p","log2","logb","gamma","tgamma","lgamma",
                "erf","erfc","j0","j1","y0","y1","frexp","modf"}

\* two- and three-argument math functions: typing, plus the cases that stay exact on small integers
BnMathOpaque2 == {"atan2","copysign","drem","fdim","fmax","fmin","fmod","hypot","jn","nextafter","nexttoward","remainder","ldexp","scalb","scalbln","yn","pow"}
BnSmallInt(v) == v.t = "num" /\ Abs(v.n) <= 1024
RECURSIVE BnIPow(_, _)
BnIPow(b, e) == IF e = 0 THEN 1 ELSE b * BnIPow(b, e - 1)
BnMath2(name, a, b) ==
  IF ~(IsNumber(a) /\ IsNumber(b)) THEN VTypeErr
  ELSE IF ~(BnSmallInt(a) /\ BnSmallInt(b)) THEN VOom
  ELSE CASE name = "fmax" -> V1(IF a.n >= b.n THEN a ELSE b)
         [] name = "fmin" -> V1(IF a.n <= b.n THEN a ELSE b)
         [] name = "fdim" -> V1(Num(IF a.n > b.n THEN a.n - b.n ELSE 0))
         [] name = "pow" /\ b.n >= 0 /\ b.n <= 9 /\ Abs(a.n) <= 8 -> V1(Num(BnIPow(a.n, b.n)))
         [] name = "fmod" /\ b.n # 0 /\ a.n > 0 -> V1(Num(a.n % Abs(b.n)))            \* the sign of a zero result is not modelled: positive dividends only
         [] name \in {"ldexp", "scalb", "scalbln"} /\ b.n >= 0 /\ b.n <= 16 -> V1(Num(a.n * BnIPow(2, b.n)))
         [] OTHER -> VOom

\* formats ---------------------------------------------------------------------
BnFmtRes(r) == CASE r.k = "ok" -> V1(Str(r.s)) [] r.k = "err" -> VTypeErr [] OTHER -> VOom
BnOnStr(x, F(_)) == LET t == FM!ToStr(x) IN IF ~t.ok THEN VOom ELSE F(t.s)
BnFormatCall(fn, x) ==
  CASE fn = "tostring" -> (IF x.t = "str" THEN V1(x) ELSE LET t == JsonText(x) IN IF t.ok THEN V1(Str(t.s)) ELSE VOom)
    [] fn = "tojson" -> (LET t == JsonText(x) IN IF t.ok THEN V1(Str(t.s)) ELSE VOom)
    [] fn = "_tohtml" -> BnOnStr(x, LAMBDA s : V1(Str(FM!ToHtml(s))))
    [] fn = "_touri" -> BnOnStr(x, LAMBDA s : V1(Str(FM!ToUri(s))))
    [] fn = "_tourid" -> BnOnStr(x, LAMBDA s : BnFmtRes(FM!ToUrid(s)))
    [] fn = "_tocsv" -> BnFmtRes(FM!FormatJoin("csv", x))
    [] fn = "_totsv" -> BnFmtRes(FM!FormatJoin("tsv", x))
    [] fn = "_tosh" -> BnFmtRes(FM!FormatJoin("sh", x))
    [] fn = "_tobase64" -> BnOnStr(x, LAMBDA s : V1(Str(FM!ToBase64(s))))
    [] fn = "_tobase64d" -> BnOnStr(x, LAMBDA s : BnFmtRes(FM!ToBase64d(s)))
    [] OTHER -> VOom
BnFormatNames == {"_tohtml", "_touri", "_tourid", "_tocsv", "_totsv", "_tosh", "_tobase64", "_tobase64d"}
\* funcFormat: "@" + name looked up in formatToFunc
BnFormatByName(s) ==
  CASE s = <<116,101,120,116>> -> "tostring" [] s = <<106,115,111,110>> -> "tojson" [] s = <<104,116,109,108>> -> "_tohtml"
    [] s = <<117,114,105>> -> "_touri" [] s = <<117,114,105,100>> -> "_tourid" [] s = <<99,115,118>> -> "_tocsv" [] s = <<116,115,118>> -> "_totsv"
    [] s = <<115,104>> -> "_tosh" [] s = <<98,97,115,101,54,52>> -> "_tobase64" [] s = <<98,97,115,101,54,52,100>> -> "_tobase64d" [] OTHER -> "?"

\* _match on a literal expression; _captures ----------------------------------------
BnKCaptures == CpOf(<<"c","a","p","t","u","r","e","s">>)
BnKLength == CpOf(<<"l","e","n","g","t","h">>)
BnKOffset == CpOf(<<"o","f","f","s","e","t">>)
BnKString == CpOf(<<"s","t","r","i","n","g">>)
BnKName == CpOf(<<"n","a","m","e">>)
BnMatchObj(off, s) == Obj(<< <<BnKCaptures, Arr(<<>>)>>, <<BnKLength, Num(Len(s))>>, <<BnKOffset, Num(off)>>, <<BnKString, Str(s)>> >>)
BnMatchNative(x, re, fl, testing) ==
  IF ~(fl.t \in {"null", "str"}) \/ x.t # "str" \/ re.t # "str" THEN VTypeErr
  ELSE LET f == IF fl.t = "null" THEN <<>> ELSE fl.s IN
       IF \E i \in 1..Len(f) : f[i] \notin {103, 105, 109} THEN VTypeErr
       ELSE IF ~FM!LiteralRe(re.s) THEN VOom
       ELSE IF (\E i \in 1..Len(f) : f[i] = 105) /\ (\E i \in 1..Len(re.s) : FM!IsLetterish(re.s[i])) THEN VOom
       ELSE LET occ == FM!Occ(x.s, re.s, 1)
                ms == IF (\E i \in 1..Len(f) : f[i] = 103) \/ Len(occ) = 0 THEN occ ELSE <<occ[1]>>
            IN IF testing = True THEN V1(Bool(Len(occ) > 0))
               ELSE V1(Arr([i \in 1..Len(ms) |-> BnMatchObj(ms[i] - 1, re.s)]))
RECURSIVE BnCapturesObj(_, _, _)
BnCapturesObj(cs, i, acc) ==
  IF i > Len(cs) THEN acc
  ELSE LET c == cs[i] IN
       IF c.t = "obj" /\ ObjGet(c.o, BnKName).t = "str" THEN BnCapturesObj(cs, i + 1, ObjPut(acc, ObjGet(c.o, BnKName).s, ObjGet(c.o, BnKString)))
       ELSE BnCapturesObj(cs, i + 1, acc)

\* dates --------------------------------------------------------------------------
\* gmtime / mktime / strftime / strptime of func.go on the civil calendar of Dates.tla.  An instant is
\* [days, sod, fn, fd]: days since 1970-01-01, second of the day, fraction fn/fd of a second (fd divides 512, so
\* that the nanosecond arithmetic of epochToArray / arrayToTime is exact).  timefmt-go is modelled for the
\* directives without flags listed in BnStrfDir; anything else is out of model.
BnDT == INSTANCE Dates
BnTOom == [k |-> "oom"]
BnTErr == [k |-> "err"]
BnInst(days, sod, fn, fd) == [k |-> "ok", days |-> days, sod |-> sod, fn |-> fn, fd |-> fd]
BnInstOfSeconds(fl, fn, fd) == LET dd == FloorDiv(fl, 86400) IN BnInst(dd, fl - dd * 86400, fn, fd)
BnEpochParts(x) ==
  CASE x.t = "num" -> BnInstOfSeconds(x.n, 0, 1)
    [] x.t = "big" -> (IF Len(x.d) > 13 THEN BnTOom
                       ELSE LET q == ZDivMod(ToZ(x), ZFromInt(86400))  qq == ZToInt(q.q)  r == ZToInt(q.r) IN
                            IF r < 0 THEN BnInst(qq - 1, r + 86400, 0, 1) ELSE BnInst(qq, r, 0, 1))
    [] x.t = "frac" -> (IF 512 % x.d # 0 THEN BnTOom ELSE LET fl == FloorDiv(x.n, x.d) IN BnInstOfSeconds(fl, x.n - fl * x.d, x.d))
    [] OTHER -> BnTOom
BnGmtimeArr(p) ==
  LET g == BnDT!Gmtime(p.days, p.sod) IN
  Arr(<<Num(g[1]), Num(g[2]), Num(g[3]), Num(g[4]), Num(g[5]), MkFrac(g[6] * p.fd + p.fn, p.fd), Num(g[7]), Num(g[8])>>)
\* arrayToTime + time.Date (fields outside their usual ranges are normalised)
BnTimeOfArr(a) ==
  LET n == IF Len(a) < 8 THEN Len(a) ELSE 8
      el(i) == IF i <= n THEN a[i] ELSE Num(0)
      int(i) == LET v == el(i) IN IF v.t = "frac" THEN TruncDiv(v.n, v.d) ELSE v.n
  IN IF \E i \in 1..n : ~IsNumber(a[i]) THEN BnTErr
     ELSE IF \E i \in 1..n : a[i].t \in {"big", "float"} THEN BnTOom
     ELSE IF \E i \in 1..n : Abs(NumerOf(a[i])) > 100000 * DenomOf(a[i]) THEN BnTOom
     ELSE LET sv == el(6)
              okf == sv.t # "frac" \/ 512 % sv.d = 0
              sfl == IF sv.t = "frac" THEN FloorDiv(sv.n, sv.d) ELSE sv.n
              fn == IF sv.t = "frac" THEN sv.n - sfl * sv.d ELSE 0
              fd == IF sv.t = "frac" THEN sv.d ELSE 1
              y2 == int(1) + FloorDiv(int(2), 12)
              m2 == int(2) - 12 * FloorDiv(int(2), 12)
              secs == int(4) * 3600 + int(5) * 60 + sfl
              dd == BnDT!DaysFromCivil(y2, m2 + 1, 1) + int(3) - 1 + FloorDiv(secs, 86400)
          IN IF ~okf THEN BnTOom ELSE BnInst(dd, secs - FloorDiv(secs, 86400) * 86400, fn, fd)
BnEpochValue(p) ==
  LET z == ZAdd(ZMul(ZFromInt(p.days), ZFromInt(86400)), ZFromInt(p.sod)) IN
  IF p.fd = 1 THEN V1(FromZ(z))
  ELSE IF ZIsSmall(z) /\ Abs(ZToInt(z)) < 30000 THEN V1(MkFrac(ZToInt(z) * p.fd + p.fn, p.fd)) ELSE VOom
BnShortWeek == <<<<83,117,110>>, <<77,111,110>>, <<84,117,101>>, <<87,101,100>>, <<84,104,117>>, <<70,114,105>>, <<83,97,116>>>>
BnLongWeek == <<<<83,117,110,100,97,121>>, <<77,111,110,100,97,121>>, <<84,117,101,115,100,97,121>>, <<87,101,100,110,101,115,100,97,121>>, <<84,104,117,114,115,100,97,121>>, <<70,114,105,100,97,121>>, <<83,97,116,117,114,100,97,121>>>>
BnShortMonth == <<<<74,97,110>>, <<70,101,98>>, <<77,97,114>>, <<65,112,114>>, <<77,97,121>>, <<74,117,110>>, <<74,117,108>>, <<65,117,103>>, <<83,101,112>>, <<79,99,116>>, <<78,111,118>>, <<68,101,99>>>>
BnLongMonth == <<<<74,97,110,117,97,114,121>>, <<70,101,98,114,117,97,114,121>>, <<77,97,114,99,104>>, <<65,112,114,105,108>>, <<77,97,121>>, <<74,117,110,101>>, <<74,117,108,121>>, <<65,117,103,117,115,116>>, <<83,101,112,116,101,109,98,101,114>>, <<79,99,116,111,98,101,114>>, <<78,111,118,101,109,98,101,114>>, <<68,101,99,101,109,98,101,114>>>>
BnPad0(n, w) == BnDT!Pad(n, w)
BnNatText(n) == IntText(Num(n))
\* one directive -> [ok, s]; g = Gmtime fields (month 0-based, weekday 0 = Sunday, yearday 0-based)
RECURSIVE BnStrfDir(_, _, _)
BnStrfSeq(ds, g, p) == LET parts == [i \in 1..Len(ds) |-> IF ds[i] < 0 THEN [ok |-> TRUE, s |-> <<0 - ds[i]>>] ELSE BnStrfDir(ds[i], g, p)] IN
                     [ok |-> \A i \in 1..Len(ds) : parts[i].ok, s |-> FM!Cat([i \in 1..Len(ds) |-> parts[i].s])]
BnStrfDir(c, g, p) ==
  LET T(s) == [ok |-> TRUE, s |-> s] IN
  CASE c = 89 -> (IF g[1] >= 0 /\ g[1] <= 9999 THEN T(BnPad0(g[1], 4)) ELSE [ok |-> FALSE, s |-> <<>>])     \* Y
    [] c = 121 -> (IF g[1] >= 0 THEN T(BnPad0(g[1] % 100, 2)) ELSE [ok |-> FALSE, s |-> <<>>])               \* y
    [] c = 109 -> T(BnPad0(g[2] + 1, 2))                                                                      \* m
    [] c = 100 -> T(BnPad0(g[3], 2))                                                                          \* d
    [] c = 101 -> T(IF g[3] < 10 THEN <<32, 48 + g[3]>> ELSE BnPad0(g[3], 2))                                 \* e
    [] c = 72 -> T(BnPad0(g[4], 2))                                                                           \* H
    [] c = 73 -> T(BnPad0(IF g[4] % 12 = 0 THEN 12 ELSE g[4] % 12, 2))                                        \* I
    [] c = 77 -> T(BnPad0(g[5], 2))                                                                           \* M
    [] c = 83 -> T(BnPad0(g[6], 2))                                                                           \* S
    [] c = 106 -> T(BnPad0(g[8] + 1, 3))                                                                      \* j
    [] c = 97 -> T(BnShortWeek[g[7] + 1])                                                                     \* a
    [] c = 65 -> T(BnLongWeek[g[7] + 1])                                                                      \* A
    [] c \in {98, 104} -> T(BnShortMonth[g[2] + 1])                                                           \* b h
    [] c = 66 -> T(BnLongMonth[g[2] + 1])                                                                     \* B
    [] c = 112 -> T(IF g[4] < 12 THEN <<65, 77>> ELSE <<80, 77>>)                                           \* p
    [] c = 90 -> T(<<85, 84, 67>>)                                                                          \* Z
    [] c = 122 -> T(<<43, 48, 48, 48, 48>>)                                                                 \* z
    [] c = 119 -> T(<<48 + g[7]>>)                                                                          \* w
    [] c = 117 -> T(<<48 + (IF g[7] = 0 THEN 7 ELSE g[7])>>)                                                \* u
    [] c = 110 -> T(<<10>>)                                                                                 \* n
    [] c = 116 -> T(<<9>>)                                                                                  \* t
    [] c = 37 -> T(<<37>>)                                                                                  \* %
    [] c = 84 -> BnStrfSeq(<<72, -58, 77, -58, 83>>, g, p)                                                    \* T = H:M:S
    [] c = 82 -> BnStrfSeq(<<72, -58, 77>>, g, p)                                                             \* R = H:M
    [] c = 70 -> BnStrfSeq(<<89, -45, 109, -45, 100>>, g, p)                                                  \* F = Y-m-d
    [] c = 68 -> BnStrfSeq(<<109, -47, 100, -47, 121>>, g, p)                                                 \* D = m/d/y
    [] OTHER -> [ok |-> FALSE, s |-> <<>>]
RECURSIVE BnStrf(_, _, _, _)
BnStrf(f, i, g, p) ==
  IF i > Len(f) THEN [ok |-> TRUE, s |-> <<>>]
  ELSE IF f[i] # 37 THEN LET r == BnStrf(f, i + 1, g, p) IN [ok |-> r.ok, s |-> <<f[i]>> \o r.s]
  ELSE IF i = Len(f) THEN [ok |-> TRUE, s |-> <<37>>]
  ELSE LET d == BnStrfDir(f[i + 1], g, p)  r == BnStrf(f, i + 2, g, p) IN [ok |-> d.ok /\ r.ok, s |-> d.s \o r.s]
BnStrftime(x, f) ==
  LET p == IF IsNumber(x) THEN BnEpochParts(x) ELSE IF x.t = "arr" THEN BnTimeOfArr(x.a) ELSE BnTErr IN
  IF p.k = "err" \/ f.t # "str" THEN VTypeErr
  ELSE IF p.k = "oom" THEN VOom
  ELSE LET r == BnStrf(f.s, 1, BnDT!Gmtime(p.days, p.sod), p) IN IF r.ok THEN V1(Str(r.s)) ELSE VOom
\* strptime: only the ISO 8601 format of fromdateiso8601 on texts of exactly that shape
BnIsoFormat == <<37,89,45,37,109,45,37,100,84,37,72,58,37,77,58,37,83,37,122>>        \* %Y-%m-%dT%H:%M:%S%z
BnDaysInMonth(y, m) == BnDT!DaysFromCivil(IF m = 12 THEN y + 1 ELSE y, IF m = 12 THEN 1 ELSE m + 1, 1) - BnDT!DaysFromCivil(y, m, 1)
BnStrptime(x, f) ==
  IF x.t # "str" \/ f.t # "str" THEN VTypeErr
  ELSE IF f.s # BnIsoFormat THEN VOom
  ELSE LET s == x.s
           dig(i) == IsDigitCp(s[i])
           shape == Len(s) = 20 /\ (\A i \in {1,2,3,4,6,7,9,10,12,13,15,16,18,19} : dig(i)) /\ s[5] = 45 /\ s[8] = 45 /\ s[11] = 84 /\ s[14] = 58 /\ s[17] = 58 /\ s[20] = 90
       IN IF ~shape THEN VOom
          ELSE LET y == BnDT!Num2(s, 1) * 100 + BnDT!Num2(s, 3)  mo == BnDT!Num2(s, 6)  d == BnDT!Num2(s, 9)  h == BnDT!Num2(s, 12)  mi == BnDT!Num2(s, 15)  sc == BnDT!Num2(s, 18) IN
               IF mo < 1 \/ mo > 12 \/ d < 1 \/ h > 23 \/ mi > 59 \/ sc > 59 THEN VOom
               ELSE IF d > BnDaysInMonth(y, mo) THEN VOom
               ELSE V1(BnGmtimeArr(BnInst(BnDT!DaysFromCivil(y, mo, d), h * 3600 + mi * 60 + sc, 0, 1)))

\* the dispatcher ---------------------------------------------------------------
StrArg2(x, a, F(_, _)) == IF x.t = "str" /\ a.t = "str" THEN V1(F(x.s, a.s)) ELSE VTypeErr

Native(name, x, args) ==
  LET a1 == IF Len(args) >= 1 THEN args[1] ELSE Null
      a2 == IF Len(args) >= 2 THEN args[2] ELSE Null
      a3 == IF Len(args) >= 3 THEN args[3] ELSE Null
  IN
  CASE name \in ArithOps -> Arith(name, a1, a2)
    [] name = "_index" -> IndexOf(a1, a2)
    [] name = "_slice" -> SliceOf(a1, a2, a3)
    [] name = "_plus" -> (IF IsNumber(x) THEN V1(x) ELSE VTypeErr)
    [] name = "_negate" -> (IF IsNumber(x) THEN NumNeg(x) ELSE VTypeErr)
    [] name = "error" -> (IF Len(args) = 0 THEN VErr(x) ELSE VErr(a1))
    [] name = "not" -> V1(Bool(~Truthy(x)))
    [] name = "type" -> V1(Str(TypeNameCp(x)))
    [] name = "length" ->
         (CASE x.t = "null" -> V1(Num(0))
            [] IsInt(x) -> V1(IF IntSign(x) < 0 THEN IntNeg(x) ELSE x)
            [] x.t = "frac" -> V1([x EXCEPT !.n = Abs(x.n)])
            [] x.t = "float" -> (IF x.f \in {"inf", "-inf"} THEN V1(PosInf) ELSE IF x.f = "nan" THEN V1(NaN) ELSE VOom)
            [] x.t = "str" -> V1(Num(Len(x.s)))
            [] x.t = "arr" -> V1(Num(Len(x.a)))
            [] x.t = "obj" -> V1(Num(Len(x.o)))
            [] OTHER -> VTypeErr)
    [] name = "abs" ->
         (CASE IsInt(x) -> V1(IF IntSign(x) < 0 THEN IntNeg(x) ELSE x)
            [] x.t = "frac" -> V1([x EXCEPT !.n = Abs(x.n)])
            [] x.t = "float" -> (IF x.f \in {"inf", "-inf"} THEN V1(PosInf) ELSE IF x.f = "nan" THEN V1(NaN) ELSE VOom)
            [] OTHER -> VTypeErr)
    [] name = "utf8bytelength" -> (IF x.t = "str" THEN V1(Num(Utf8Len(x.s))) ELSE VTypeErr)
    [] name = "keys" ->
         (CASE x.t = "arr" -> V1(Arr([i \in 1..Len(x.a) |-> Num(i - 1)]))
            [] x.t = "obj" -> V1(Arr(ObjKeys(x.o)))
            [] OTHER -> VTypeErr)
    [] name = "has" ->
         (CASE x.t = "arr" /\ IsNumber(a1) ->
                 LET r == ToIntLike(a1) IN IF IsOomInt(r) THEN VOom ELSE V1(Bool(0 <= r.n /\ r.n < Len(x.a)))
            [] x.t = "obj" /\ a1.t = "str" -> V1(Bool(ObjHas(x.o, a1.s)))
            [] x.t = "null" -> V1(False)
            [] OTHER -> VTypeErr)
    [] name = "add" -> (IF IsContainer(x) THEN AddAll(ValuesOf(x), 1, Null) ELSE VTypeErr)
    [] name = "reverse" -> (IF x.t = "arr" THEN V1(Arr([i \in 1..Len(x.a) |-> x.a[Len(x.a) + 1 - i]])) ELSE VTypeErr)
    [] name = "contains" -> LET c == Contains(x, a1) IN
                            (CASE c = "t" -> V1(True) [] c = "f" -> V1(False) [] c = "oom" -> VOom [] OTHER -> VTypeErr)
    [] name = "inside" -> LET c == Contains(a1, x) IN
                          (CASE c = "t" -> V1(True) [] c = "f" -> V1(False) [] c = "oom" -> VOom [] OTHER -> VTypeErr)
    [] name \in {"indices", "index", "rindex"} ->
         (IF x.t = "null" THEN V1(Null)
          ELSE IF ~(x.t = "arr" \/ (x.t = "str" /\ a1.t = "str")) THEN VTypeErr
          ELSE IF ~(Known(x) /\ Known(a1)) THEN VOom
          ELSE LET vs == IF x.t = "arr" THEN x.a ELSE [i \in 1..Len(x.s) |-> Num(x.s[i])]
                   xs == IF x.t = "str" THEN [i \in 1..Len(a1.s) |-> Num(a1.s[i])] ELSE IF a1.t = "arr" THEN a1.a ELSE <<a1>>
                   ix == ArrIndices(vs, xs)
               IN CASE name = "indices" -> V1(Arr(ix))
                    [] name = "index" -> V1(IF Len(ix) = 0 THEN Null ELSE ix[1])
                    [] OTHER -> V1(IF Len(ix) = 0 THEN Null ELSE ix[Len(ix)]))
    [] name = "startswith" -> StrArg2(x, a1, LAMBDA s, t : Bool(Len(t) <= Len(s) /\ SubSeq(s, 1, Len(t)) = t))
    [] name = "endswith" -> StrArg2(x, a1, LAMBDA s, t : Bool(Len(t) <= Len(s) /\ SubSeq(s, Len(s) - Len(t) + 1, Len(s)) = t))
    [] name = "ltrimstr" -> StrArg2(x, a1, LAMBDA s, t : Str(TrimPrefix(s, t)))
    [] name = "rtrimstr" -> StrArg2(x, a1, LAMBDA s, t : Str(TrimSuffix(s, t)))
    [] name = "trimstr" -> StrArg2(x, a1, LAMBDA s, t : Str(TrimSuffix(TrimPrefix(s, t), t)))
    [] name = "ltrim" -> (IF x.t = "str" THEN V1(Str(TrimLeftSpace(x.s))) ELSE VTypeErr)
    [] name = "rtrim" -> (IF x.t = "str" THEN V1(Str(TrimRightSpace(x.s))) ELSE VTypeErr)
    [] name = "trim" -> (IF x.t = "str" THEN V1(Str(TrimRightSpace(TrimLeftSpace(x.s)))) ELSE VTypeErr)
    [] name = "explode" -> (IF x.t = "str" THEN V1(Arr([i \in 1..Len(x.s) |-> Num(x.s[i])])) ELSE VTypeErr)
    [] name = "implode" ->
         (IF x.t # "arr" THEN VTypeErr
          ELSE IF \E i \in 1..Len(x.a) : ~IsNumber(x.a[i]) THEN VTypeErr
          ELSE IF \E i \in 1..Len(x.a) : IsOomInt(ToIntLike(x.a[i])) THEN VOom
          ELSE V1(Str([i \in 1..Len(x.a) |-> LET r == ToIntLike(x.a[i]).n IN IF ValidRune(r) THEN r ELSE 65533])))
    [] name = "split" -> (IF Len(args) = 1 THEN
                            (IF x.t = "str" /\ a1.t = "str" THEN LET ps == SplitCp(x.s, a1.s) IN V1(Arr([i \in 1..Len(ps) |-> Str(ps[i])])) ELSE VTypeErr)
                          ELSE VOom)
    [] name = "join" ->
         (IF ~IsContainer(x) THEN VTypeErr
          ELSE LET vs == ValuesOf(x) IN
               IF Len(vs) = 0 THEN V1(Str(<<>>))
               ELSE IF \E i \in 1..Len(vs) : IsNumber(vs[i]) /\ ~IsInt(vs[i]) /\ vs[i].t # "frac" THEN VOom
               ELSE LET conv(v) == IF v.t = "bool" \/ IsNumber(v) THEN Str(ScalarText(v)) ELSE v
                        seq == [i \in 1..(2 * Len(vs)) |-> IF i % 2 = 1 THEN (IF i = 1 THEN Str(<<>>) ELSE a1) ELSE conv(vs[i \div 2])]
                    IN AddAll(seq, 1, Null))
    [] name = "ascii_downcase" -> (IF x.t = "str" THEN V1(Str([i \in 1..Len(x.s) |-> IF x.s[i] >= 65 /\ x.s[i] <= 90 THEN x.s[i] + 32 ELSE x.s[i]])) ELSE VTypeErr)
    [] name = "ascii_upcase" -> (IF x.t = "str" THEN V1(Str([i \in 1..Len(x.s) |-> IF x.s[i] >= 97 /\ x.s[i] <= 122 THEN x.s[i] - 32 ELSE x.s[i]])) ELSE VTypeErr)
    [] name = "flatten" ->
         (IF ~IsContainer(x) THEN VTypeErr
          ELSE IF Len(args) = 0 THEN V1(Arr(Flatten(ValuesOf(x), -1)))
          ELSE IF ~IsNumber(a1) THEN VTypeErr
          ELSE IF a1.t = "float" THEN (IF a1.f \in {"nan", "-inf"} THEN VTypeErr ELSE IF a1.f = "inf" THEN V1(Arr(Flatten(ValuesOf(x), -1))) ELSE VOom)
          ELSE IF a1.t = "big" THEN (IF a1.neg THEN VTypeErr ELSE V1(Arr(Flatten(ValuesOf(x), -1))))
          ELSE IF NumerOf(a1) < 0 THEN VTypeErr
          ELSE IF a1.t = "frac" THEN VOom
          ELSE V1(Arr(Flatten(ValuesOf(x), a1.n))))
    [] name = "_range" ->
         (IF ~(IsNumber(a1) /\ IsNumber(a2) /\ IsNumber(a3)) THEN VTypeErr ELSE RangeSeq(a1, a2, a3, 200))
    [] name \in {"min", "max"} ->
         (IF x.t # "arr" THEN VTypeErr ELSE IF ~Sortable(x.a) THEN VOom ELSE V1(MinMaxBy(x.a, x.a, name = "min")))
    [] name \in {"_min_by", "_max_by"} ->
         (IF x.t # "arr" \/ a1.t # "arr" THEN VTypeErr ELSE IF Len(x.a) # Len(a1.a) THEN VTypeErr
          ELSE IF ~Sortable(a1.a) THEN VOom ELSE V1(MinMaxBy(x.a, a1.a, name = "_min_by")))
    [] name = "sort" -> (IF x.t # "arr" THEN VTypeErr ELSE IF ~Sortable(x.a) THEN VOom ELSE V1(Arr(SortBy(x.a, x.a))))
    [] name = "unique" -> (IF x.t # "arr" THEN VTypeErr ELSE IF ~Sortable(x.a) THEN VOom ELSE V1(Arr(UniqueBy(x.a, x.a))))
    [] name \in {"_sort_by", "_group_by", "_unique_by"} ->
         (IF x.t # "arr" \/ a1.t # "arr" THEN VTypeErr ELSE IF Len(x.a) # Len(a1.a) THEN VTypeErr
          ELSE IF ~Sortable(a1.a) THEN VOom
          ELSE CASE name = "_sort_by" -> V1(Arr(SortBy(x.a, a1.a)))
                 [] name = "_group_by" -> V1(Arr(GroupBy(x.a, a1.a)))
                 [] OTHER -> V1(Arr(UniqueBy(x.a, a1.a))))
    [] name = "bsearch" -> (IF x.t # "arr" THEN VTypeErr ELSE IF ~(Sortable(x.a) /\ Known(a1) /\ ~HasNaN(a1)) THEN VOom ELSE V1(Bsearch(x.a, a1)))
    [] name = "transpose" ->
         (IF x.t # "arr" THEN VTypeErr ELSE IF \E i \in 1..Len(x.a) : x.a[i].t # "arr" THEN VTypeErr ELSE V1(Arr(Transpose(x.a))))
    [] name = "getpath" -> (IF a1.t # "arr" THEN VTypeErr ELSE GetPath(x, a1.a, 1))
    [] name = "setpath" -> SetPath(x, a1, a2)
    [] name = "delpaths" -> DelPaths(x, a1)
    [] name = "tostring" -> (IF x.t = "str" THEN V1(x) ELSE LET t == JsonText(x) IN IF t.ok THEN V1(Str(t.s)) ELSE VOom)
    [] name = "tojson" -> (LET t == JsonText(x) IN IF t.ok THEN V1(Str(t.s)) ELSE VOom)
    [] name = "tonumber" ->
         (CASE IsNumber(x) -> V1(x)
            [] x.t = "str" -> LET r == ParseNumber(x.s) IN (CASE r.k = "ok" -> V1(r.v) [] r.k = "bad" -> VTypeErr [] OTHER -> VOom)
            [] OTHER -> VTypeErr)
    [] name = "toboolean" ->
         (CASE x.t = "bool" -> V1(x)
            [] x.t = "str" -> (IF x.s = CpOf(<<"t","r","u","e">>) THEN V1(True) ELSE IF x.s = CpOf(<<"f","a","l","s","e">>) THEN V1(False) ELSE VTypeErr)
            [] OTHER -> VTypeErr)
    [] name = "infinite" -> V1(PosInf)
    [] name = "nan" -> V1(NaN)
    [] name = "isnan" -> (IF IsNumber(x) THEN V1(Bool(x.t = "float" /\ x.f = "nan")) ELSE IF x.t = "null" THEN V1(False) ELSE VTypeErr)
    [] name = "isinfinite" -> (IF x.t = "big" THEN VOom ELSE V1(Bool(x.t = "float" /\ x.f \in {"inf", "-inf"})))
    [] name = "isfinite" -> (IF x.t = "big" THEN VOom ELSE V1(Bool(IsNumber(x) /\ ~(x.t = "float" /\ x.f \in {"inf", "-inf"}))))
    [] name = "isnormal" -> (IF ~IsNumber(x) THEN V1(False) ELSE IF x.t = "float" THEN (IF x.f \in {"nan", "inf", "-inf"} THEN V1(False) ELSE VOom)
                             ELSE IF x.t = "big" THEN VOom ELSE V1(Bool(NumerOf(x) # 0)))
    [] name \in MathNames -> MathExact(name, x)
    [] name \in MathSmallNames -> MathSmall(name, x)
    [] name \in MathOpaque1 -> (IF IsNumber(x) THEN VOom ELSE VTypeErr)
    [] name \in BnMathOpaque2 -> BnMath2(name, a1, a2)
    [] name = "fma" -> (IF ~(IsNumber(a1) /\ IsNumber(a2) /\ IsNumber(a3)) THEN VTypeErr
                        ELSE IF BnSmallInt(a1) /\ BnSmallInt(a2) /\ BnSmallInt(a3) THEN V1(Num(a1.n * a2.n + a3.n)) ELSE VOom)
    [] name \in BnFormatNames -> BnFormatCall(name, x)
    [] name = "format" -> (IF a1.t # "str" THEN VTypeErr ELSE LET fn == BnFormatByName(a1.s) IN IF fn = "?" THEN VTypeErr ELSE BnFormatCall(fn, x))
    [] name = "fromjson" -> (IF x.t # "str" THEN VTypeErr
                             ELSE LET r == FM!ParseJson(x.s) IN CASE r.k = "ok" -> V1(r.v) [] r.k = "bad" -> VTypeErr [] OTHER -> VOom)
    [] name = "_match" -> BnMatchNative(x, a1, a2, a3)
    [] name = "gmtime" -> (IF ~IsNumber(x) THEN VTypeErr ELSE LET p == BnEpochParts(x) IN IF p.k = "ok" THEN V1(BnGmtimeArr(p)) ELSE VOom)
    [] name = "mktime" -> (IF x.t # "arr" THEN VTypeErr ELSE LET p == BnTimeOfArr(x.a) IN CASE p.k = "ok" -> BnEpochValue(p) [] p.k = "err" -> VTypeErr [] OTHER -> VOom)
    [] name = "strftime" -> BnStrftime(x, a1)
    [] name = "strptime" -> BnStrptime(x, a1)
    [] name = "_captures" -> (IF x.t # "arr" THEN VTypeErr ELSE V1(Obj(BnCapturesObj(x.a, 1, <<>>))))
    [] name = "halt" -> [o |-> <<>>, e |-> HaltE(Null, 0)]
    [] name = "halt_error" ->
         (IF Len(args) = 0 THEN [o |-> <<>>, e |-> HaltE(x, 5)]
          ELSE IF ~IsNumber(a1) THEN VTypeErr
          ELSE LET r == ToIntLike(a1) IN IF IsOomInt(r) \/ a1.t = "big" THEN VOom ELSE [o |-> <<>>, e |-> HaltE(x, r.n)])
    [] OTHER -> VOom

\* arities the dispatcher knows (name -> set of argument counts); anything else is out of model
=============================================================================
