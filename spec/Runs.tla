-------------------------------- MODULE Runs --------------------------------
(***************************************************************************)
(* C05: histories of runs of ONE compiled query.  A history is the sequence *)
(* of events recorded from the real library                                  *)
(*   init(in, vars, consts)            digests before anything ran           *)
(*   start(run, obj)                   obj: the same input object, a fresh    *)
(*                                     equal copy, or another input           *)
(*   emit(run, i, h, ser)              i-th value: digest and digest of its   *)
(*                                     serialisation                          *)
(*   check / finish(run, in, vars, consts, emitted)   digests observed NOW of *)
(*                                     the input object, the variable values,  *)
(*                                     the constants embedded in the code and  *)
(*                                     of every value emitted so far           *)
(*   error(run)                                                                *)
(* The trace specification steps through the events (variable l) keeping the  *)
(* abstract state (what each run emitted) and checks in EVERY state:           *)
(*   InputUnchanged, VarsUnchanged, ConstantsUnchanged, EmittedStable,          *)
(*   RerunSame (a run on the same object or on an equal copy emits exactly     *)
(*   what run 1 emitted, with identical serialisation).                         *)
(***************************************************************************)
EXTENDS Integers, Sequences, TLC, Json, IOUtils

Trace == ndJsonDeserialize(IOEnv.VERIF_TRACE)

\* first violated invariant of a history: [ok |-> TRUE] or [ok |-> FALSE, at |-> event index, inv |-> name]
RECURSIVE Walk(_, _, _, _, _)
\* st = [init, cur (run number), kind (of the current run), out (sequence per run of <<h, ser>> pairs)]
Walk(ev, l, st, n, fuel) ==
  IF l > n \/ fuel = 0 THEN [ok |-> TRUE]
  ELSE LET e == ev[l] IN
  CASE e.e = "init" -> Walk(ev, l + 1, [st EXCEPT !.init = e], n, fuel - 1)
    [] e.e = "start" -> Walk(ev, l + 1, [st EXCEPT !.cur = e.run, !.kind = e.obj, !.out = Append(st.out, <<>>)], n, fuel - 1)
    [] e.e = "emit" ->
         LET mine == Append(st.out[st.cur], <<e.h, e.ser>>)
             ref == st.out[1]
         IN IF st.cur > 1 /\ st.kind \in {"same", "copy"} /\ ~(Len(mine) <= Len(ref) /\ ref[Len(mine)] = <<e.h, e.ser>>)
            THEN [ok |-> FALSE, at |-> l, inv |-> "RerunSame"]
            ELSE Walk(ev, l + 1, [st EXCEPT !.out[st.cur] = mine], n, fuel - 1)
    [] e.e \in {"check", "finish"} ->
         LET mine == st.out[st.cur] IN
         IF e["in"] # st.init["in"] THEN [ok |-> FALSE, at |-> l, inv |-> "InputUnchanged"]
         ELSE IF e.vars # st.init.vars THEN [ok |-> FALSE, at |-> l, inv |-> "VarsUnchanged"]
         ELSE IF e.consts # st.init.consts THEN [ok |-> FALSE, at |-> l, inv |-> "ConstantsUnchanged"]
         ELSE IF Len(e.emitted) # Len(mine) \/ \E i \in 1..Len(mine) : e.emitted[i] # mine[i][1] THEN [ok |-> FALSE, at |-> l, inv |-> "EmittedStable"]
         ELSE IF e.e = "finish" /\ st.cur > 1 /\ st.kind \in {"same", "copy"} /\ ~st.cut /\ Len(mine) # Len(st.out[1]) THEN [ok |-> FALSE, at |-> l, inv |-> "RerunSame"]
         ELSE Walk(ev, l + 1, st, n, fuel - 1)
    [] OTHER -> Walk(ev, l + 1, st, n, fuel - 1)

Verdict(rec) == [id |-> rec.id] @@ Walk(rec.events, 1, [init |-> [e |-> "none"], cur |-> 0, kind |-> "none", out |-> <<>>, cut |-> rec.cut], Len(rec.events), 100000)

VARIABLE done
Init == done = ndJsonSerialize(IOEnv.VERIF_OUT, [k \in 1..Len(Trace) |-> Verdict(Trace[k])])
Next == UNCHANGED done
=============================================================================
