------------------------------- MODULE ArgsMC -------------------------------
(***************************************************************************)
(* C16 - model checking of cli/flags.go parseFlags (Args.tla), one action   *)
(* per iteration of its loop, over EVERY argv of at most MaxLen tokens from *)
(* {--arg, --argjson, --args, --jsonargs, --, -n, three words}.             *)
(* Ghost history: the bindings and the positional values in command-line    *)
(* order.  The four maps + the shared mapKeys set + the two Nil-padded       *)
(* slices of the implementation must at every step represent exactly that   *)
(* history (first binding of a name wins; positional values in order, each  *)
(* with the mode that was active when it was read).                         *)
(***************************************************************************)
EXTENDS Args, TLC

CONSTANTS MaxLen

L(n) == [k |-> "long", name |-> n]
W(i) == [k |-> "word", w |-> i]
Alphabet == {L("arg"), L("argjson"), L("args"), L("jsonargs"), [k |-> "ddash"], [k |-> "short", letters |-> <<"n">>], W(1), W(2), W(3)}

VARIABLES argv, ps, binds, poslist
vars == <<argv, ps, binds, poslist>>

Init ==
  /\ \E n \in 0..MaxLen : argv \in [1..n -> Alphabet]
  /\ ps = ParseInit
  /\ binds = <<>>
  /\ poslist = <<>>

Step ==
  /\ ps.err = "none" /\ ps.i <= Len(argv)
  /\ LET x == FlagStep(ps, argv) IN
     /\ ps' = x.ps
     /\ binds' = IF x.ev.e = "bind" /\ x.ps.err = "none" THEN Append(binds, [flag |-> x.ev.flag, name |-> x.ev.name, val |-> x.ev.val]) ELSE binds
     /\ poslist' = IF x.ev.e = "pos" THEN Append(poslist, [mode |-> x.ev.mode, tok |-> x.ev.tok]) ELSE poslist
  /\ UNCHANGED argv

Done == (ps.err # "none" \/ ps.i > Len(argv)) /\ UNCHANGED vars
Next == Step \/ Done

\* ---------------------------------------------------------------------------
AsSet(q) == {q[j] : j \in 1..Len(q)}
\* the maps hold exactly the first binding of every name, under the flag that made it
NamedRefines == ps.err = "none" => AsSet(Named(ps)) = AsSet(FirstWins(binds, 1, {})) /\ Len(Named(ps)) = Cardinality(ps.keys)
\* a name is bound once over all four maps
NamesUnique == \A x, y \in AsSet(Named(ps)) : x.name = y.name => x = y
\* the two slices merge to the positional values in command-line order
PositionalRefines == ps.err = "none" => Positional(ps) = poslist
\* no position is claimed by both slices, none by neither
SlicesComplementary ==
  LET n == IF Len(ps.args) > Len(ps.jsonargs) THEN Len(ps.args) ELSE Len(ps.jsonargs)
      At(q, j) == IF j <= Len(q) THEN q[j] ELSE Nil
  IN \A j \in 1..n : (At(ps.args, j) = Nil) # (At(ps.jsonargs, j) = Nil)
\* the first non-option is the query even under --args; later ones are files only while no positional mode is active
RestShape == ps.err = "none" => (Len(poslist) > 0 => Len(ps.rest) > 0)
\* the function used as the oracle agrees with the machine
OracleAgrees == (ps.err # "none" \/ ps.i > Len(argv)) => ParseFlags(ParseInit, argv) = ps
=============================================================================
