CONSTANTS SliceSharesCap = TRUE InPlaceSlice = FALSE InPlaceEscaped = FALSE EscapeFix = FALSE
INIT Init
NEXT Next
INVARIANT I3
INVARIANT I1
INVARIANT I2
CHECK_DEADLOCK FALSE
