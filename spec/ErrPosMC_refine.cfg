CONSTANTS PRE = 3 CUT = 5 NBH = 16 BUFSZ = 8 THRESH = 4 MINREAD = 2 FIXRA = TRUE FIXCR = FALSE MAXDOCS = 1
INIT Init
NEXT Next
INVARIANTS Refines
CHECK_DEADLOCK FALSE

