------------------------------ MODULE Encoder ------------------------------
(***************************************************************************)
(* C12 - how gojq writes values as JSON text, byte for byte, and how that   *)
(* text reads back.  Written from the code:                                 *)
(*                                                                          *)
(*   encoder.go        encode / encodeFloat64 / encodeString / encodeArray  *)
(*                     / encodeObject  (gojq.Marshal, tojson, tostring,     *)
(*                     @json, @text)                  -> Enc, EncString ... *)
(*   cli/encoder.go    the command's second copy with indentation, colours  *)
(*                     and a buffer flushed above 8 KiB -> CliEvents: the   *)
(*                     sequence of buffer operations it performs; Render    *)
(*                     gives their bytes, IndentWriter.tla executes them on *)
(*                     the buffer machine (block doubling, flush)           *)
(*   cli/color.go      default palette, GOJQ_COLORS parsing (setColors,     *)
(*                     validColor)                    -> SetColors          *)
(*   cli/cli.go        createMarshaler (flag precedence), printValues       *)
(*                     (terminators), rawMarshaler    -> MkCfg, Stdout      *)
(*   func.go           funcToJSON, funcToString, funcFromJSON               *)
(*                                                    -> FuncToJSON, FuncToString, Norm*)
(*                                                                          *)
(* and, independent of the code, a JSON reader (Dec, RFC 8259 + valid       *)
(* UTF-8), the removal of insignificant white space (Squeeze), of SGR       *)
(* sequences (StripSGR) and the indentation law (IndentLaw), which state    *)
(* the property.                                                            *)
(*                                                                          *)
(* VALUE MODEL (the Go dynamic types the encoders switch on; strings are    *)
(* BYTE sequences, not necessarily valid UTF-8):                            *)
(*   [t |-> "null"]   [t |-> "bool", v |-> BOOLEAN]                         *)
(*   [t |-> "int", neg, d]      int / *big.Int; d = decimal digits of |x|,  *)
(*                              <<0>> for zero                              *)
(*   [t |-> "flt", k, neg, d, e] float64; k = "nan" | "inf" | "-inf" |      *)
(*                              "fin"; for "fin" the SHORTEST decimal that  *)
(*                              identifies the double: d1.d2...dn * 10^e    *)
(*                              (strconv's digit generation is a leaf, out  *)
(*                              of model; everything done with the digits   *)
(*                              is modelled)                                *)
(*   [t |-> "lit", s]           json.Number: the literal as read, verbatim  *)
(*   [t |-> "str", b]           string, bytes                               *)
(*   [t |-> "arr", a]           []any                                       *)
(*   [t |-> "obj", o]           map[string]any as << <<key bytes, value>> >>*)
(*                              with distinct keys, any order (the encoders *)
(*                              sort); canonical = sorted bytewise          *)
(***************************************************************************)
EXTENDS Utf8, FiniteSets

VNull == [t |-> "null"]
VBool(b) == [t |-> "bool", v |-> b]
VInt(neg, d) == [t |-> "int", neg |-> neg, d |-> d]
VFin(neg, d, e) == [t |-> "flt", k |-> "fin", neg |-> neg, d |-> d, e |-> e]
VNaN == [t |-> "flt", k |-> "nan"]
VInf == [t |-> "flt", k |-> "inf"]
VNegInf == [t |-> "flt", k |-> "-inf"]
VLit(s) == [t |-> "lit", s |-> s]
VStr(b) == [t |-> "str", b |-> b]
VArr(a) == [t |-> "arr", a |-> a]
VObj(o) == [t |-> "obj", o |-> o]

\* ---------------------------------------------------------------------------
\* sequences of byte sequences

RECURSIVE FlatR(_, _, _)
FlatR(ss, lo, hi) ==      \* balanced concatenation: O(n log n) copies
  IF lo > hi THEN <<>>
  ELSE IF lo = hi THEN ss[lo]
  ELSE LET m == (lo + hi) \div 2 IN FlatR(ss, lo, m) \o FlatR(ss, m + 1, hi)
Flat(ss) == FlatR(ss, 1, Len(ss))              \* ss: a tuple
FlatF(f, n) == FlatR(f, 1, n)                    \* f: a function constructor over 1..n; every f[i] is evaluated exactly once

Rep(n, x) == [i \in 1..n |-> x]
Drop(s, n) == SubSeq(s, n + 1, Len(s))

\* ASCII -----------------------------------------------------------------
Quote == 34      Backslash == 92   Comma == 44     Colon == 58
LBrack == 91     RBrack == 93      LBrace == 123   RBrace == 125
Space == 32      Tab == 9          LF == 10        CR == 13   ESC == 27
Minus == 45      Plus == 43        Dot == 46       Zero == 48
NullBytes == <<110, 117, 108, 108>>
TrueBytes == <<116, 114, 117, 101>>
FalseBytes == <<102, 97, 108, 115, 101>>
IsDigit(b) == b >= 48 /\ b <= 57
IsWs(b) == b \in {Space, Tab, LF, CR}
DigitBytes(ds) == [i \in 1..Len(ds) |-> 48 + ds[i]]
RECURSIVE NatDigits(_)
NatDigits(n) == IF n < 10 THEN <<n>> ELSE Append(NatDigits(n \div 10), n % 10)

\* ---------------------------------------------------------------------------
\* encoder.go: encodeString (identical copy in cli/encoder.go)

HexLower == <<48, 49, 50, 51, 52, 53, 54, 55, 56, 57, 97, 98, 99, 100, 101, 102>>   \* "0123456789abcdef"
\* the switch on a byte that is not in ' '..'~' minus '"' and '\\'
EscapeByte(b) ==
  CASE b = 34 -> <<92, 34>>
    [] b = 92 -> <<92, 92>>
    [] b = 8  -> <<92, 98>>       \* \b
    [] b = 12 -> <<92, 102>>      \* \f
    [] b = 10 -> <<92, 110>>      \* \n
    [] b = 13 -> <<92, 114>>      \* \r
    [] b = 9  -> <<92, 116>>      \* \t
    [] OTHER  -> <<92, 117, 48, 48, HexLower[(b \div 16) + 1], HexLower[(b % 16) + 1]>>    \* \u00XX (controls and DEL)
EscFFFD == <<92, 117, 102, 102, 102, 100>>     \* the six characters �

PlainAscii(b) == 32 <= b /\ b <= 126 /\ b # 34 /\ b # 92

\* the loop `for i := 0; i < len(s);` with its two cursors: everything in s[start, i) is pending
\* and is written verbatim when an escape is emitted or at the end.  (1-based here.)
RECURSIVE EncStrLoop(_, _, _)
EncStrLoop(s, i, start) ==
  IF i > Len(s) THEN SubSeq(s, start, Len(s))
  ELSE LET b == s[i] IN
       IF b < 128 THEN
          (IF PlainAscii(b) THEN EncStrLoop(s, i + 1, start)
           ELSE SubSeq(s, start, i - 1) \o EscapeByte(b) \o EncStrLoop(s, i + 1, i + 1))
       ELSE LET r == DecodeRune(s, i) IN
            IF r.r = RuneError /\ r.size = 1
            THEN SubSeq(s, start, i - 1) \o EscFFFD \o EncStrLoop(s, i + 1, i + 1)
            ELSE EncStrLoop(s, i + r.size, start)      \* well-formed multi-byte character (U+FFFD itself included): verbatim
EncStringScan(s) == <<Quote>> \o EncStrLoop(s, 1, 1) \o <<Quote>>
\* the same text position by position (see Utf8.tla, Covered), for long strings; MCEncoder.tla checks the equality
EncStringFast(s) ==
  <<Quote>>
    \o CatR([i \in 1..Len(s) |->
               LET b == s[i] IN
               IF b < 128 THEN (IF PlainAscii(b) THEN <<b>> ELSE EscapeByte(b))
               ELSE IF Covered(s, i) THEN <<>>
               ELSE LET r == DecodeRune(s, i) IN IF r.r = RuneError /\ r.size = 1 THEN EscFFFD ELSE SubSeq(s, i, i + r.size - 1)],
            1, Len(s))
    \o <<Quote>>
EncString(s) == IF Len(s) <= 48 THEN EncStringScan(s) ELSE EncStringFast(s)

\* ---------------------------------------------------------------------------
\* encoder.go: encodeFloat64 (identical copy in cli/encoder.go)

MaxFloatDigits == <<1, 7, 9, 7, 6, 9, 3, 1, 3, 4, 8, 6, 2, 3, 1, 5, 7>>      \* math.MaxFloat64 = 1.7976931348623157e+308
\* f = min(max(f, -math.MaxFloat64), math.MaxFloat64)
Clamp(v) == CASE v.k = "inf" -> VFin(FALSE, MaxFloatDigits, 308)
              [] v.k = "-inf" -> VFin(TRUE, MaxFloatDigits, 308)
              [] OTHER -> v
IsZeroFin(f) == f.d = <<0>>
\* `x != 0 && x < 1e-6 || x >= 1e21` on the shortest decimal d1.d2..dn * 10^e (1 <= d1.d2.. < 10):
\* x < 1e-6 iff e <= -7, x >= 1e21 iff e >= 21 (decimal -> double conversion is monotonic and the
\* shortest decimals of the doubles 1e-6 and 1e21 are these one-digit numbers themselves)
UsesExpFormat(f) == (~IsZeroFin(f) /\ f.e < -6) \/ f.e >= 21

\* strconv.AppendFloat(_, f, 'f', -1, 64): %f with the shortest digits; decimal point after digit e+1
FmtF(f) ==
  LET n == Len(f.d)
      dp == f.e + 1
      ip == IF dp > 0 THEN [i \in 1..dp |-> IF i <= n THEN 48 + f.d[i] ELSE 48] ELSE <<48>>
      prec == IF n - dp > 0 THEN n - dp ELSE 0
      fr == [j \in 1..prec |-> LET q == dp + j IN IF q >= 1 /\ q <= n THEN 48 + f.d[q] ELSE 48]
  IN (IF f.neg THEN <<Minus>> ELSE <<>>) \o ip \o (IF prec > 0 THEN <<Dot>> \o fr ELSE <<>>)

\* strconv.AppendFloat(_, f, 'e', -1, 64): d[.ddd]e(+|-)XX, at least two exponent digits
FmtE(f) ==
  LET n == Len(f.d)
      ae == IF f.e < 0 THEN 0 - f.e ELSE f.e
      ed == NatDigits(ae)
      ex == IF Len(ed) < 2 THEN <<48>> \o DigitBytes(ed) ELSE DigitBytes(ed)
  IN (IF f.neg THEN <<Minus>> ELSE <<>>) \o <<48 + f.d[1]>>
       \o (IF n > 1 THEN <<Dot>> \o DigitBytes(SubSeq(f.d, 2, n)) ELSE <<>>)
       \o <<101, IF f.e < 0 THEN Minus ELSE Plus>> \o ex

\* "clean up e-09 to e-9"
CleanExp(buf) ==
  LET n == Len(buf) IN
  IF n >= 4 /\ buf[n - 3] = 101 /\ buf[n - 2] = Minus /\ buf[n - 1] = Zero
  THEN SubSeq(buf, 1, n - 2) \o <<buf[n]>>
  ELSE buf

FloatIsNull(v) == v.k = "nan"
FloatBytes(v) ==       \* v.k # "nan"
  LET f == Clamp(v) IN IF UsesExpFormat(f) THEN CleanExp(FmtE(f)) ELSE FmtF(f)

IntBytes(v) == (IF v.neg THEN <<Minus>> ELSE <<>>) \o DigitBytes(v.d)     \* strconv.AppendInt / big.Int.Append, base 10

\* bytes of any number-typed value (encode's cases int, float64, *big.Int, json.Number)
NumberBytes(v) ==
  CASE v.t = "int" -> IntBytes(v)
    [] v.t = "lit" -> v.s
    [] v.t = "flt" -> IF FloatIsNull(v) THEN NullBytes ELSE FloatBytes(v)
IsNumberV(v) == v.t \in {"int", "lit", "flt"}

\* ---------------------------------------------------------------------------
\* encodeObject: sort.Slice(kvs, key <) - insertion sort on the bytewise order

\* position of the first pair whose key is not below k (Len + 1 if none)
RECURSIVE LowerBound(_, _, _)
LowerBound(o, k, i) == IF i > Len(o) \/ ~BytesLess(o[i][1], k) THEN i ELSE LowerBound(o, k, i + 1)
InsertPair(sorted, kv) == LET p == LowerBound(sorted, kv[1], 1) IN SubSeq(sorted, 1, p - 1) \o <<kv>> \o SubSeq(sorted, p, Len(sorted))
RECURSIVE SortPairsFrom(_, _, _)
SortPairsFrom(o, i, acc) == IF i > Len(o) THEN acc ELSE SortPairsFrom(o, i + 1, InsertPair(acc, o[i]))
IsSortedPairs(o) == \A i \in 1..(Len(o) - 1) : BytesLess(o[i][1], o[i + 1][1])
SortPairs(o) == IF IsSortedPairs(o) THEN o ELSE SortPairsFrom(o, 1, <<>>)

\* ---------------------------------------------------------------------------
\* encoder.go: encode (compact; gojq.Marshal, jsonMarshal)

RECURSIVE Enc(_)
Enc(v) ==
  CASE v.t = "null" -> NullBytes
    [] v.t = "bool" -> (IF v.v THEN TrueBytes ELSE FalseBytes)
    [] v.t \in {"int", "lit", "flt"} -> NumberBytes(v)
    [] v.t = "str" -> EncString(v.b)
    [] v.t = "arr" ->
         <<LBrack>> \o FlatF([i \in 1..Len(v.a) |-> (IF i > 1 THEN <<Comma>> ELSE <<>>) \o Enc(v.a[i])], Len(v.a)) \o <<RBrack>>
    [] v.t = "obj" ->
         LET kvs == SortPairs(v.o) IN
         <<LBrace>> \o FlatF([i \in 1..Len(kvs) |->
                               (IF i > 1 THEN <<Comma>> ELSE <<>>) \o EncString(kvs[i][1]) \o <<Colon>> \o Enc(kvs[i][2])], Len(kvs))
           \o <<RBrace>>

\* func.go ------------------------------------------------------------------
\* (the ...Of forms take the text e = Enc(v) already computed)
ToJSONOf(e) == VStr(e)
ToStringOf(v, e) == IF v.t = "str" THEN v ELSE VStr(e)
InterpOf(pre, s, post) == VStr(pre \o s.b \o post)
FuncToJSON(v) == ToJSONOf(Enc(v))                            \* funcToJSON; @json
FuncToString(v) == ToStringOf(v, Enc(v))                     \* funcToString; @text; "\(...)"
Interp(pre, v, post, json) == InterpOf(pre, IF json THEN FuncToJSON(v) ELSE FuncToString(v), post)   \* @json "pre\(.)post" etc.

\* ---------------------------------------------------------------------------
\* cli/color.go

SGR(code) == <<ESC, 91>> \o code \o <<109>>                   \* newColor: "\x1b[" + c + "m"
ResetColor == SGR(<<48>>)
NoPalette == [null |-> <<>>, false |-> <<>>, true |-> <<>>, number |-> <<>>, string |-> <<>>, key |-> <<>>, array |-> <<>>, object |-> <<>>]
DefaultPalette == [null |-> SGR(<<57, 48>>), false |-> SGR(<<51, 51>>), true |-> SGR(<<51, 51>>), number |-> SGR(<<51, 54>>),
                   string |-> SGR(<<51, 50>>), key |-> SGR(<<51, 52, 59, 49>>), array |-> <<>>, object |-> <<>>]
PaletteFields == <<"null", "false", "true", "number", "string", "key", "array", "object">>    \* the order of setColors' targets

\* validColor: digits and ';', every ';' preceded by a digit, ends with a digit
RECURSIVE ValidColorFrom(_, _, _)
ValidColorFrom(x, i, num) ==
  IF i > Len(x) THEN num
  ELSE IF IsDigit(x[i]) THEN ValidColorFrom(x, i + 1, TRUE)
  ELSE IF x[i] = 59 /\ num THEN ValidColorFrom(x, i + 1, FALSE)
  ELSE FALSE
ValidColor(x) == ValidColorFrom(x, 1, FALSE)

\* strings.Cut(s, ":")
RECURSIVE IndexOf(_, _, _)
IndexOf(s, b, i) == IF i > Len(s) THEN 0 ELSE IF s[i] = b THEN i ELSE IndexOf(s, b, i + 1)
Cut(s) == LET p == IndexOf(s, Colon, 1) IN
          IF p = 0 THEN [before |-> s, after |-> <<>>] ELSE [before |-> SubSeq(s, 1, p - 1), after |-> Drop(s, p)]

\* setColors: the eight targets in order; an empty field means "no colour" (nil); fields beyond the eighth are ignored.
\* [ok |-> FALSE] models the error return "invalid color" (the command exits 5 without output).
RECURSIVE SetColorsFrom(_, _, _)
SetColorsFrom(colors, k, pal) ==
  IF k > 8 THEN [ok |-> TRUE, pal |-> pal]
  ELSE LET c == Cut(colors) IN
       IF c.before # <<>> /\ ~ValidColor(c.before) THEN [ok |-> FALSE, pal |-> pal]
       ELSE SetColorsFrom(c.after, k + 1,
                          [pal EXCEPT ![PaletteFields[k]] = IF c.before = <<>> THEN <<>> ELSE SGR(c.before)])
SetColors(colors) == SetColorsFrom(colors, 1, DefaultPalette)

\* cli.go runInternal: -C / -M decide, otherwise NO_COLOR / TERM=dumb / not a terminal (the checks always pipe: no colour).
\* GOJQ_COLORS is consulted only when colour is on and the variable is non-empty.
\* cfg.colors: the bytes of GOJQ_COLORS (<<>> = unset or empty).
PaletteOf(color, colors) ==
  IF ~color THEN [ok |-> TRUE, pal |-> NoPalette]              \* noColor: setColor writes nothing
  ELSE IF colors = <<>> THEN [ok |-> TRUE, pal |-> DefaultPalette]
  ELSE SetColors(colors)

\* StripSGR: remove every ESC [ (digits and ;)* m
RECURSIVE SgrEnd(_, _)
SgrEnd(s, i) ==       \* i is just after "ESC ["; position of the closing 'm' or 0
  IF i > Len(s) THEN 0
  ELSE IF s[i] = 109 THEN i
  ELSE IF IsDigit(s[i]) \/ s[i] = 59 THEN SgrEnd(s, i + 1)
  ELSE 0
RECURSIVE StripSGRFrom(_, _, _)
StripSGRFrom(s, i, start) ==     \* left-to-right scan (same two-cursor shape as the string encoder)
  IF i > Len(s) THEN <<SubSeq(s, start, Len(s))>>
  ELSE IF s[i] = ESC /\ i < Len(s) /\ s[i + 1] = 91 /\ SgrEnd(s, i + 2) # 0
       THEN LET e == SgrEnd(s, i + 2) IN <<SubSeq(s, start, i - 1)>> \o StripSGRFrom(s, e + 1, e + 1)
       ELSE StripSGRFrom(s, i + 1, start)
StripSGRScan(s) == Flat(StripSGRFrom(s, 1, 1))
\* The same function without a recursion as deep as the text is long (TLC: deep recursion makes every garbage
\* collection scan the whole stack, i.e. quadratic time on 64 KiB outputs): a byte is removed iff it lies inside
\* an occurrence of ESC [ params m - occurrences cannot overlap, since they contain no ESC but the first byte.
\* MCEncoder.tla checks StripSGR = StripSGRScan on every coloured text of the universe.
IsParam(b) == IsDigit(b) \/ b = 59
RECURSIVE ParamRunStart(_, _)
ParamRunStart(s, i) == IF i >= 1 /\ IsParam(s[i]) THEN ParamRunStart(s, i - 1) ELSE i + 1       \* start of the run of params ending at i
RECURSIVE ParamRunEnd(_, _)
ParamRunEnd(s, i) == IF i <= Len(s) /\ IsParam(s[i]) THEN ParamRunEnd(s, i + 1) ELSE i - 1      \* end of the run of params starting at i
SgrStartsAt(s, i) == s[i] = ESC /\ i + 1 <= Len(s) /\ s[i + 1] = 91
                       /\ LET e == ParamRunEnd(s, i + 2) + 1 IN e <= Len(s) /\ s[e] = 109
InSgr(s, i) ==
  LET b == s[i] IN
  CASE b = ESC -> SgrStartsAt(s, i)
    [] b = 91 -> i > 1 /\ s[i - 1] = ESC /\ SgrStartsAt(s, i - 1)
    [] IsParam(b) \/ b = 109 -> LET st == ParamRunStart(s, i - 1) IN st >= 3 /\ s[st - 1] = 91 /\ s[st - 2] = ESC /\ SgrStartsAt(s, st - 2)
    [] OTHER -> FALSE
RECURSIVE KeepR(_, _, _)
KeepR(s, lo, hi) ==      \* balanced: recursion depth log2(Len(s))
  IF lo > hi THEN <<>>
  ELSE IF hi - lo < 16 THEN SelectSeq([k \in 1..(hi - lo + 1) |-> IF InSgr(s, lo + k - 1) THEN -1 ELSE s[lo + k - 1]], LAMBDA b : b >= 0)
  ELSE LET m == (lo + hi) \div 2 IN KeepR(s, lo, m) \o KeepR(s, m + 1, hi)
StripSGR(s) == KeepR(s, 1, Len(s))

\* ---------------------------------------------------------------------------
\* cli/cli.go: createMarshaler.  Flags -> encoder configuration.
\*   indent: -1 compact | 0..9; tab: indent character; precedence  -c > --tab > --indent n > default 2
\*   raw: "" | "r" (--raw-output) | "j" (--join-output)
MkCfg(compact, tab, indentOpt, color, colors, raw) ==
  [indent |-> IF compact THEN -1 ELSE IF tab THEN 1 ELSE IF indentOpt >= 0 THEN indentOpt ELSE 2,      \* indentOpt = -1: option absent
   tab |-> tab, color |-> color, colors |-> colors, raw |-> raw]

\* ---------------------------------------------------------------------------
\* cli/encoder.go as the sequence of operations it performs on its bytes.Buffer `e.w`:
\*   [op |-> "w",  b |-> bytes]   one call of write / writeByte / encodeString / WriteByte(' ') - colour
\*                                sequences included
\*   [op |-> "nl", n |-> depth]   writeIndent(): '\n' and, if n > 0, n indent characters (writeIndentInternal)
\*   [op |-> "chk"]               the end of encode(): `if e.w.Len() > 8*1024 { flush }`
\* marshal() = encode(v) then flush.

W(bytes, color) == [op |-> "w", b |-> IF color = <<>> THEN bytes ELSE color \o bytes \o ResetColor]     \* write, writeByte
NL(n) == [op |-> "nl", n |-> n]
Chk == [op |-> "chk"]

RECURSIVE CliEvents(_, _, _, _)
\* encode(v) at e.depth = depth, with e.indent = ind and the effective palette pal
CliEvents(v, ind, pal, depth) ==
  (CASE v.t = "null" -> <<W(NullBytes, pal.null)>>
     [] v.t = "bool" -> <<IF v.v THEN W(TrueBytes, pal.true) ELSE W(FalseBytes, pal.false)>>
     [] v.t = "int" -> <<W(IntBytes(v), pal.number)>>
     [] v.t = "lit" -> <<W(v.s, pal.number)>>
     [] v.t = "flt" -> <<IF FloatIsNull(v) THEN W(NullBytes, pal.null) ELSE W(FloatBytes(v), pal.number)>>
     [] v.t = "str" -> <<W(EncString(v.b), pal.string)>>
     [] v.t = "arr" ->        \* encodeArray
          LET d1 == depth + ind       \* e.depth += e.indent
              n == Len(v.a)
          IN <<W(<<LBrack>>, pal.array)>>
               \o FlatF([i \in 1..n |->
                          (IF i > 1 THEN <<W(<<Comma>>, pal.array)>> ELSE <<>>)
                            \o (IF ind >= 0 THEN <<NL(d1)>> ELSE <<>>)
                            \o CliEvents(v.a[i], ind, pal, d1)], n)
               \o (IF n > 0 /\ ind >= 0 THEN <<NL(depth)>> ELSE <<>>)       \* after e.depth -= e.indent
               \o <<W(<<RBrack>>, pal.array)>>
     [] v.t = "obj" ->        \* encodeObject
          LET d1 == depth + ind
              kvs == SortPairs(v.o)
              n == Len(kvs)
          IN <<W(<<LBrace>>, pal.object)>>
               \o FlatF([i \in 1..n |->
                          (IF i > 1 THEN <<W(<<Comma>>, pal.object)>> ELSE <<>>)
                            \o (IF ind >= 0 THEN <<NL(d1)>> ELSE <<>>)
                            \o <<W(EncString(kvs[i][1]), pal.key), W(<<Colon>>, pal.object)>>
                            \o (IF ind >= 0 THEN <<W(<<Space>>, <<>>)>> ELSE <<>>)
                            \o CliEvents(kvs[i][2], ind, pal, d1)], n)
               \o (IF n > 0 /\ ind >= 0 THEN <<NL(depth)>> ELSE <<>>)
               \o <<W(<<RBrace>>, pal.object)>>)
  \o <<Chk>>

IndentChar(tab) == IF tab THEN Tab ELSE Space
\* the bytes an operation appends (what writeIndentInternal has to achieve: exactly n indent characters)
EventBytes(ev, tab) ==
  CASE ev.op = "w" -> ev.b
    [] ev.op = "nl" -> <<LF>> \o (IF ev.n > 0 THEN Rep(ev.n, IndentChar(tab)) ELSE <<>>)
    [] ev.op = "chk" -> <<>>
Render(evs, tab) == FlatF([i \in 1..Len(evs) |-> EventBytes(evs[i], tab)], Len(evs))

\* marshal(v, w) of the indenting encoder
CliBytes(v, cfg, pal) == Render(CliEvents(v, cfg.indent, pal, 0), cfg.tab)

\* rawMarshaler + printValues: one value on stdout with its terminator
PrintValue(v, cfg, pal) ==
  (IF cfg.raw # "" /\ v.t = "str" THEN v.b ELSE CliBytes(v, cfg, pal))
    \o (IF cfg.raw = "j" THEN <<>> ELSE <<LF>>)

\* the command's stdout and exit status for a query that emits vs
Stdout(vs, cfg) ==
  LET p == PaletteOf(cfg.color, cfg.colors) IN
  IF ~p.ok THEN [status |-> 5, out |-> <<>>]
  ELSE [status |-> 0, out |-> FlatF([i \in 1..Len(vs) |-> PrintValue(vs[i], cfg, p.pal)], Len(vs))]

\* cli.go funcDebug / funcStderr: a compact encoder (with the colours of the run) on stderr
DebugBytes(v, pal) == CliBytes(VArr(<<VStr(<<68, 69, 66, 85, 71, 58>>), v>>), [indent |-> -1, tab |-> FALSE], pal) \o <<LF>>
StderrBytes(v, pal) == IF v.t = "str" THEN v.b ELSE CliBytes(v, [indent |-> -1, tab |-> FALSE], pal)

\* ===========================================================================
\* Reading back: a JSON reader (RFC 8259; the text must be valid UTF-8).  Numbers are kept as their
\* literal, like encoding/json with UseNumber (funcFromJSON, the command's input).  Objects come out
\* canonical (sorted, last duplicate wins).  Result [ok, v, next] / [ok |-> FALSE].

Fail == [ok |-> FALSE]
RECURSIVE SkipWs(_, _)
SkipWs(s, i) == IF i <= Len(s) /\ IsWs(s[i]) THEN SkipWs(s, i + 1) ELSE i
HasAt(s, i, lit) == i + Len(lit) - 1 <= Len(s) /\ SubSeq(s, i, i + Len(lit) - 1) = lit
RECURSIVE TakeDigits(_, _)
TakeDigits(s, i) == IF i <= Len(s) /\ IsDigit(s[i]) THEN TakeDigits(s, i + 1) ELSE i

\* number = [ "-" ] ( "0" | digit1-9 *digit ) [ "." 1*digit ] [ ("e" | "E") [ "+" | "-" ] 1*digit ]
NumberEnd(s, i) ==      \* position after the number starting at i, or 0
  LET p0 == IF i <= Len(s) /\ s[i] = Minus THEN i + 1 ELSE i
      p1 == TakeDigits(s, p0)
      intOk == p1 > p0 /\ (s[p0] # Zero \/ p1 = p0 + 1)
      hasDot == p1 <= Len(s) /\ s[p1] = Dot
      p2 == IF hasDot THEN TakeDigits(s, p1 + 1) ELSE p1
      fracOk == ~hasDot \/ p2 > p1 + 1
      hasExp == p2 <= Len(s) /\ s[p2] \in {101, 69}
      p3 == IF hasExp /\ p2 + 1 <= Len(s) /\ s[p2 + 1] \in {Plus, Minus} THEN p2 + 2 ELSE p2 + 1
      p4 == IF hasExp THEN TakeDigits(s, p3) ELSE p2
      expOk == ~hasExp \/ p4 > p3
  IN IF intOk /\ fracOk /\ expOk THEN p4 ELSE 0

\* The wider number syntax of YAML's core schema that the command's --yaml-input hands through as a literal
\* (deviation switch of finding F-C12-yaml-number-literal): sign +, leading zeros, no digit before or after the point.
NumberEndYaml(s, i) ==
  LET p0 == IF i <= Len(s) /\ s[i] \in {Minus, Plus} THEN i + 1 ELSE i
      p1 == TakeDigits(s, p0)
      hasDot == p1 <= Len(s) /\ s[p1] = Dot
      p2 == IF hasDot THEN TakeDigits(s, p1 + 1) ELSE p1
      digits == (p1 - p0) + (IF hasDot THEN p2 - p1 - 1 ELSE 0)
      hasExp == p2 <= Len(s) /\ s[p2] \in {101, 69}
      p3 == IF hasExp /\ p2 + 1 <= Len(s) /\ s[p2 + 1] \in {Plus, Minus} THEN p2 + 2 ELSE p2 + 1
      p4 == IF hasExp THEN TakeDigits(s, p3) ELSE p2
  IN IF digits > 0 /\ (~hasExp \/ p4 > p3) THEN p4 ELSE 0

HexVal(b) == CASE IsDigit(b) -> b - 48
               [] b >= 97 /\ b <= 102 -> b - 87
               [] b >= 65 /\ b <= 70 -> b - 55
               [] OTHER -> -1
Hex4(s, i) ==     \* value of the four hex digits at i, or -1
  IF i + 3 > Len(s) \/ \E k \in 0..3 : HexVal(s[i + k]) < 0 THEN -1
  ELSE HexVal(s[i]) * 4096 + HexVal(s[i + 1]) * 256 + HexVal(s[i + 2]) * 16 + HexVal(s[i + 3])

SimpleEscape(b) == CASE b = 34 -> 34 [] b = 92 -> 92 [] b = 47 -> 47 [] b = 98 -> 8 [] b = 102 -> 12
                     [] b = 110 -> 10 [] b = 114 -> 13 [] b = 116 -> 9 [] OTHER -> -1

RECURSIVE ReadStrFrom(_, _, _)
\* i: cursor inside a string literal (after the opening quote); acc: list of decoded pieces
ReadStrFrom(s, i, acc) ==
  IF i > Len(s) THEN Fail
  ELSE LET b == s[i] IN
       IF b = Quote THEN [ok |-> TRUE, b |-> Flat(acc), next |-> i + 1]
       ELSE IF b < 32 THEN Fail                               \* control characters must be escaped
       ELSE IF b = Backslash THEN
            (IF i + 1 > Len(s) THEN Fail
             ELSE IF s[i + 1] = 117 THEN
                  LET h == Hex4(s, i + 2) IN
                  IF h < 0 THEN Fail
                  ELSE IF h >= 55296 /\ h <= 56319 /\ HasAt(s, i + 6, <<92, 117>>)
                          /\ Hex4(s, i + 8) >= 56320 /\ Hex4(s, i + 8) <= 57343
                       THEN ReadStrFrom(s, i + 12, Append(acc, EncodeRune(65536 + (h - 55296) * 1024 + (Hex4(s, i + 8) - 56320))))
                       ELSE ReadStrFrom(s, i + 6, Append(acc, EncodeRune(h)))       \* a lone surrogate reads as U+FFFD
             ELSE LET c == SimpleEscape(s[i + 1]) IN
                  IF c < 0 THEN Fail ELSE ReadStrFrom(s, i + 2, Append(acc, <<c>>)))
       ELSE IF b < 128 THEN ReadStrFrom(s, i + 1, Append(acc, <<b>>))
       ELSE LET r == DecodeRune(s, i) IN
            IF IsEncodingError(r) THEN Fail                    \* JSON text is UTF-8
            ELSE ReadStrFrom(s, i + r.size, Append(acc, SubSeq(s, i, i + r.size - 1)))

\* canonical objects: sorted by key, a later duplicate replaces an earlier one
PutPair(o, k, v) ==
  LET p == LowerBound(o, k, 1) IN
  IF p <= Len(o) /\ o[p][1] = k THEN [o EXCEPT ![p] = <<k, v>>]
  ELSE SubSeq(o, 1, p - 1) \o << <<k, v>> >> \o SubSeq(o, p, Len(o))

RECURSIVE ReadValue(_, _, _)
\* yamlNums: FALSE = JSON; TRUE = numbers in the wider syntax above are accepted too (classification only)
ReadValue(s, i0, yamlNums) ==
  LET i == SkipWs(s, i0) IN
  IF i > Len(s) THEN Fail
  ELSE LET b == s[i] IN
    CASE b = 110 -> IF HasAt(s, i, NullBytes) THEN [ok |-> TRUE, v |-> VNull, next |-> i + 4] ELSE Fail
      [] b = 116 -> IF HasAt(s, i, TrueBytes) THEN [ok |-> TRUE, v |-> VBool(TRUE), next |-> i + 4] ELSE Fail
      [] b = 102 -> IF HasAt(s, i, FalseBytes) THEN [ok |-> TRUE, v |-> VBool(FALSE), next |-> i + 5] ELSE Fail
      [] b = Quote -> LET r == ReadStrFrom(s, i + 1, <<>>) IN
                      IF r.ok THEN [ok |-> TRUE, v |-> VStr(r.b), next |-> r.next] ELSE Fail
      [] b = Minus \/ IsDigit(b) \/ (yamlNums /\ b \in {Plus, Dot}) -> LET e == IF yamlNums THEN NumberEndYaml(s, i) ELSE NumberEnd(s, i) IN
                      IF e = 0 THEN Fail ELSE [ok |-> TRUE, v |-> VLit(SubSeq(s, i, e - 1)), next |-> e]
      [] b = LBrack ->
           LET RECURSIVE Elems(_, _)
               Elems(j, acc) ==      \* j: at the start of an element
                 LET r == ReadValue(s, j, yamlNums) IN
                 IF ~r.ok THEN Fail
                 ELSE LET k == SkipWs(s, r.next) IN
                      IF k > Len(s) THEN Fail
                      ELSE IF s[k] = Comma THEN Elems(k + 1, Append(acc, r.v))
                      ELSE IF s[k] = RBrack THEN [ok |-> TRUE, v |-> VArr(Append(acc, r.v)), next |-> k + 1]
                      ELSE Fail
               j0 == SkipWs(s, i + 1)
           IN IF j0 <= Len(s) /\ s[j0] = RBrack THEN [ok |-> TRUE, v |-> VArr(<<>>), next |-> j0 + 1] ELSE Elems(j0, <<>>)
      [] b = LBrace ->
           LET RECURSIVE Members(_, _)
               Members(j0, acc) ==
                 LET j == SkipWs(s, j0) IN
                 IF j > Len(s) \/ s[j] # Quote THEN Fail
                 ELSE LET ks == ReadStrFrom(s, j + 1, <<>>) IN
                      IF ~ks.ok THEN Fail
                      ELSE LET c == SkipWs(s, ks.next) IN
                           IF c > Len(s) \/ s[c] # Colon THEN Fail
                           ELSE LET r == ReadValue(s, c + 1, yamlNums) IN
                                IF ~r.ok THEN Fail
                                ELSE LET k == SkipWs(s, r.next)
                                         acc1 == PutPair(acc, ks.b, r.v)
                                     IN IF k > Len(s) THEN Fail
                                        ELSE IF s[k] = Comma THEN Members(k + 1, acc1)
                                        ELSE IF s[k] = RBrace THEN [ok |-> TRUE, v |-> VObj(acc1), next |-> k + 1]
                                        ELSE Fail
               j1 == SkipWs(s, i + 1)
           IN IF j1 <= Len(s) /\ s[j1] = RBrace THEN [ok |-> TRUE, v |-> VObj(<<>>), next |-> j1 + 1] ELSE Members(j1, <<>>)
      [] OTHER -> Fail

\* one JSON text, optionally surrounded by white space
Dec(s) == LET r == ReadValue(s, 1, FALSE) IN
          IF r.ok /\ SkipWs(s, r.next) = Len(s) + 1 THEN [ok |-> TRUE, v |-> r.v] ELSE Fail
\* a stream of JSON texts (what the command prints for several outputs)
RECURSIVE DecStreamFrom(_, _, _, _)
DecStreamFrom(s, i0, acc, yamlNums) ==
  LET i == SkipWs(s, i0) IN
  IF i > Len(s) THEN [ok |-> TRUE, vs |-> acc]
  ELSE LET r == ReadValue(s, i, yamlNums) IN
       IF r.ok THEN DecStreamFrom(s, r.next, Append(acc, r.v), yamlNums) ELSE [ok |-> FALSE, vs |-> acc]
DecStream(s) == DecStreamFrom(s, 1, <<>>, FALSE)
DecStreamYamlNums(s) == DecStreamFrom(s, 1, <<>>, TRUE)

\* ---------------------------------------------------------------------------
\* What reading back must give: Norm(v).  NaN -> null, infinities saturate (inside FloatBytes), every
\* invalid byte of a string or key becomes U+FFFD, keys that collide after the replacement merge
\* (the later one in the written order wins), numbers are their canonical literal.

RECURSIVE Norm(_)
Norm(v) ==
  CASE v.t \in {"null", "bool"} -> v
    [] v.t = "flt" -> IF FloatIsNull(v) THEN VNull ELSE VLit(FloatBytes(v))
    [] v.t \in {"int", "lit"} -> VLit(NumberBytes(v))
    [] v.t = "str" -> VStr(ToValid(v.b))
    [] v.t = "arr" -> VArr([i \in 1..Len(v.a) |-> Norm(v.a[i])])
    [] v.t = "obj" ->
         LET kvs == SortPairs(v.o)                                   \* the order in which the members are written
             nk == [i \in 1..Len(kvs) |-> <<ToValid(kvs[i][1]), Norm(kvs[i][2])>>]
             RECURSIVE Put(_, _)
             Put(i, acc) == IF i > Len(nk) THEN acc ELSE Put(i + 1, PutPair(acc, nk[i][1], nk[i][2]))
         IN IF IsSortedPairs(nk) THEN VObj(nk)                       \* no collision, order kept: nothing to merge
            ELSE VObj(Put(1, <<>>))

\* ---------------------------------------------------------------------------
\* The decimal value of a number literal, to state that a number reads back EQUAL (not only as the
\* same characters): [neg, d, e] with d1.d2..dn * 10^e, no leading or trailing zeros; zero = <<0>>, e = 0.

RECURSIVE StripLeadZ(_)
StripLeadZ(d) == IF Len(d) > 1 /\ d[1] = 0 THEN StripLeadZ(Tail(d)) ELSE d
RECURSIVE StripTrailZ(_)
StripTrailZ(d) == IF Len(d) > 1 /\ d[Len(d)] = 0 THEN StripTrailZ(SubSeq(d, 1, Len(d) - 1)) ELSE d
RECURSIVE SmallNat(_, _, _)
SmallNat(s, i, acc) == IF i > Len(s) THEN acc ELSE SmallNat(s, i + 1, acc * 10 + (s[i] - 48))
\* digits with the decimal point after position `point` (counted in digits) -> normal form
NormalDecimal(neg, digits, point) ==
  LET lead == Len(digits) - Len(StripLeadZ(digits))          \* leading zeros removed
      d1 == StripTrailZ(StripLeadZ(digits))
  IN IF d1 = <<0>> THEN [neg |-> FALSE, d |-> <<0>>, e |-> 0]
     ELSE [neg |-> neg, d |-> d1, e |-> point - lead - 1]
\* tok: a literal accepted by NumberEnd, exponent of at most 6 digits
DecimalOf(tok) ==
  LET neg == tok[1] = Minus
      p0 == IF neg THEN 2 ELSE 1
      p1 == TakeDigits(tok, p0)
      hasDot == p1 <= Len(tok) /\ tok[p1] = Dot
      p2 == IF hasDot THEN TakeDigits(tok, p1 + 1) ELSE p1
      hasExp == p2 <= Len(tok)
      eneg == hasExp /\ tok[p2 + 1] = Minus
      p3 == IF hasExp /\ tok[p2 + 1] \in {Plus, Minus} THEN p2 + 2 ELSE p2 + 1
      ex == IF hasExp THEN (IF eneg THEN 0 - SmallNat(tok, p3, 0) ELSE SmallNat(tok, p3, 0)) ELSE 0
      ids == [k \in 1..(p1 - p0) |-> tok[p0 + k - 1] - 48]
      fds == IF hasDot THEN [k \in 1..(p2 - p1 - 1) |-> tok[p1 + k] - 48] ELSE <<>>
      n == NormalDecimal(neg, ids \o fds, Len(ids))
  IN IF n.d = <<0>> THEN n ELSE [n EXCEPT !.e = n.e + ex]
\* the mathematical value of a model number (nan has none)
NumberValue(v) ==
  CASE v.t = "int" -> NormalDecimal(v.neg, v.d, Len(v.d))
    [] v.t = "flt" -> LET f == Clamp(v) IN IF IsZeroFin(f) THEN [neg |-> FALSE, d |-> <<0>>, e |-> 0] ELSE [neg |-> f.neg, d |-> f.d, e |-> f.e]
    [] v.t = "lit" -> DecimalOf(v.s)

\* equality of values up to the spelling of numbers (used for the YAML law and for `reads back equal`)
RECURSIVE SameValue(_, _)
SameValue(a, b) ==
  IF IsNumberV(a) /\ IsNumberV(b) THEN NumberValue(a) = NumberValue(b)
  ELSE IF a.t # b.t THEN FALSE
  ELSE CASE a.t = "arr" -> Len(a.a) = Len(b.a) /\ \A i \in 1..Len(a.a) : SameValue(a.a[i], b.a[i])
         [] a.t = "obj" -> Len(a.o) = Len(b.o) /\ \A i \in 1..Len(a.o) : a.o[i][1] = b.o[i][1] /\ SameValue(a.o[i][2], b.o[i][2])
         [] OTHER -> a = b

\* ---------------------------------------------------------------------------
\* Insignificant white space: everything in {space, tab, LF, CR} outside string literals.
RECURSIVE SqueezeFrom(_, _, _, _)
SqueezeFrom(s, i, start, inStr) ==
  IF i > Len(s) THEN <<SubSeq(s, start, Len(s))>>
  ELSE IF inStr THEN
       (IF s[i] = Backslash THEN SqueezeFrom(s, i + 2, start, TRUE)
        ELSE SqueezeFrom(s, i + 1, start, s[i] # Quote))
  ELSE IF IsWs(s[i]) THEN <<SubSeq(s, start, i - 1)>> \o SqueezeFrom(s, i + 1, i + 1, FALSE)
  ELSE SqueezeFrom(s, i + 1, start, s[i] = Quote)
Squeeze(s) == Flat(SqueezeFrom(s, 1, 1, FALSE))

\* ---------------------------------------------------------------------------
\* "indentation is exactly depth times the unit", stated on the text alone: every line after the
\* first starts with exactly (open brackets so far, minus one if the line starts with a closing
\* bracket) * unit indent characters, followed by something that is not white space.
RECURSIVE IndentLawFrom(_, _, _, _, _, _)
\* walk the text; depth = brackets open, inStr = inside a string literal
IndentLawFrom(s, i, depth, inStr, unit, ch) ==
  IF i > Len(s) THEN depth = 0 /\ ~inStr
  ELSE LET b == s[i] IN
    IF inStr THEN (IF b = Backslash THEN IndentLawFrom(s, i + 2, depth, TRUE, unit, ch)
                   ELSE IndentLawFrom(s, i + 1, depth, b # Quote, unit, ch))
    ELSE IF b = LF THEN
         LET RECURSIVE Run(_)
             Run(j) == IF j <= Len(s) /\ s[j] = ch THEN Run(j + 1) ELSE j
             j == Run(i + 1)                \* first byte after the run of indent characters
             closing == j <= Len(s) /\ s[j] \in {RBrack, RBrace}
             want == (IF closing THEN depth - 1 ELSE depth) * unit
         IN /\ j <= Len(s) /\ ~IsWs(s[j])
            /\ j - (i + 1) = want
            /\ IndentLawFrom(s, j, depth, FALSE, unit, ch)
    ELSE IF b \in {LBrack, LBrace} THEN IndentLawFrom(s, i + 1, depth + 1, FALSE, unit, ch)
    ELSE IF b \in {RBrack, RBrace} THEN depth > 0 /\ IndentLawFrom(s, i + 1, depth - 1, FALSE, unit, ch)
    ELSE IndentLawFrom(s, i + 1, depth, b = Quote, unit, ch)
\* s: one indented JSON text without its final newline
IndentLaw(s, cfg) == IndentLawFrom(s, 1, 0, FALSE, IF cfg.tab THEN 1 ELSE cfg.indent, IndentChar(cfg.tab))
=============================================================================
