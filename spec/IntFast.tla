------------------------------ MODULE IntFast ------------------------------
(***************************************************************************)
(* C10.  The integer arithmetic of gojq, transcribed from the code:         *)
(*                                                                         *)
(*   operator.go  binopTypeSwitch, funcOpAdd, funcOpSub, funcOpMul,         *)
(*                funcOpDiv, funcOpMod, negate, funcOpNegate, funcOpPlus    *)
(*   func.go      funcAbs, funcLength, parseNumber                          *)
(*   compare.go   Compare (cmp.Compare on int, big.Int.Cmp)              *)
(*                                                                         *)
(* The module is generic in the CARRIER of integers: it is instantiated     *)
(*   - by IntFastMC.tla with TLC's integers and a W-bit machine word        *)
(*     (W = 4, 6, 8), where TLC explores ALL operand pairs, and             *)
(*   - by ValidateArith.tla with ExactInt.tla digit sequences and W = 64,   *)
(*     where the same text predicts what the real gojq must return for      *)
(*     the recorded operands.                                               *)
(*                                                                         *)
(* Go's `int` is a two's-complement word: every machine operation is the    *)
(* exact operation followed by WrapW (reduction modulo 2^W into             *)
(* [MinInt, MaxInt]).  The overflow tests of the fast paths are written     *)
(* against those wrapped results, exactly as in the code; none of them      *)
(* mentions the width.  math/big is the exact carrier operation (trusted).  *)
(***************************************************************************)
EXTENDS Integers   \* only for the results -1, 0, 1 of Compare

CONSTANTS MinInt, MaxInt,             \* bounds of Go's int, as carrier elements
          Zero, MinusOne,             \* carrier constants
          Plus(_, _), Minus(_, _), Times(_, _),   \* exact carrier operations
          TQuo(_, _), TRem(_, _),     \* truncated division (Go's / and %, big.Int.Quo/Rem), divisor # Zero
          Less(_, _),                 \* strict order of the carrier
          WrapW(_)                    \* mathematical integer -> the W-bit word congruent to it

Geq(a, b) == ~Less(a, b)
Leq(a, b) == ~Less(b, a)
FitsInt(v) == Geq(v, MinInt) /\ Leq(v, MaxInt)

(***************************************************************************)
(* What the machine computes on two words.                                  *)
(***************************************************************************)
MAdd(l, r) == WrapW(Plus(l, r))
MSub(l, r) == WrapW(Minus(l, r))
MMul(l, r) == WrapW(Times(l, r))
MNeg(v)    == WrapW(Minus(Zero, v))
MQuo(l, r) == WrapW(TQuo(l, r))       \* r # 0;  MinInt / -1 wraps to MinInt (no trap in Go)
MRem(l, r) == TRem(l, r)              \* |l % r| < |r|: always a word

(***************************************************************************)
(* Values: the exact Go representations of an integer, and the outcomes     *)
(* that leave the integers.                                                 *)
(*   int     [rep |-> "int",  v]            MinInt <= v <= MaxInt             *)
(*   *big.Int[rep |-> "big",  v]            any v (NOT normalised: may fit)   *)
(*   json.Number [rep |-> "jnum", neg, mag] the text "-"? digits(mag)         *)
(*              ("-0" is [neg |-> TRUE, mag |-> Zero])                        *)
(*   float64 [rep |-> "float"]              value not modelled               *)
(*   error   [rep |-> "err", e]                                              *)
(***************************************************************************)
GoInt(v)  == [rep |-> "int", v |-> v]
GoBig(v)  == [rep |-> "big", v |-> v]
JNum(neg, mag) == [rep |-> "jnum", neg |-> neg, mag |-> mag]
JNumOf(v) == IF Less(v, Zero) THEN JNum(TRUE, Minus(Zero, v)) ELSE JNum(FALSE, v)
Float   == [rep |-> "float"]
ErrDiv  == [rep |-> "err", e |-> "zerodiv"]
ErrMod  == [rep |-> "err", e |-> "zeromod"]

IsInteger(x) == x.rep \in {"int", "big", "jnum"}
\* the mathematical value an integer representation denotes
Val(x) == IF x.rep = "jnum" THEN (IF x.neg THEN Minus(Zero, x.mag) ELSE x.mag) ELSE x.v

(***************************************************************************)
(* func.go: parseNumber, on the text of an integer (no '.', 'e', 'E'):      *)
(* v.Int64() succeeds iff the value fits; otherwise big.Int.SetString.      *)
(***************************************************************************)
ParseNumber(x) == LET v == Val(x) IN IF FitsInt(v) THEN GoInt(v) ELSE GoBig(v)

(***************************************************************************)
(* operator.go: binopTypeSwitch restricted to integer operands.             *)
(* json.Number operands are parsed first; int x int takes callbackInts,     *)
(* every other combination converts the int side with big.NewInt (value    *)
(* preserving) and takes callbackBigInts.                                   *)
(***************************************************************************)
Norm(x) == IF x.rep = "jnum" THEN ParseNumber(x) ELSE x

BinopTypeSwitch(l0, r0, CallbackInts(_, _), CallbackBigInts(_, _)) ==
  LET l == Norm(l0)
      r == Norm(r0)
  IN IF l.rep = "int" /\ r.rep = "int" THEN CallbackInts(l.v, r.v)
                                       ELSE CallbackBigInts(l.v, r.v)

(***************************************************************************)
(* operator.go: negate                                                      *)
(*   if v == math.MinInt { return new(big.Int).Neg(big.NewInt(int64(v))) }   *)
(*   return -v                                                              *)
(***************************************************************************)
Negate(v) == IF v = MinInt THEN GoBig(Minus(Zero, v)) ELSE GoInt(MNeg(v))

(***************************************************************************)
(* funcOpAdd:  if v := l + r; (v >= l) == (r >= 0) { return v }             *)
(*             x.Add(x, y)                                                  *)
(***************************************************************************)
AddInts(l, r) == LET v == MAdd(l, r) IN
                 IF Geq(v, l) = Geq(r, Zero) THEN GoInt(v) ELSE GoBig(Plus(l, r))
AddBigs(l, r) == GoBig(Plus(l, r))
OpAdd(l, r) == BinopTypeSwitch(l, r, AddInts, AddBigs)

(***************************************************************************)
(* funcOpSub:  if v := l - r; (v <= l) == (r >= 0) { return v }             *)
(***************************************************************************)
SubInts(l, r) == LET v == MSub(l, r) IN
                 IF Leq(v, l) = Geq(r, Zero) THEN GoInt(v) ELSE GoBig(Minus(l, r))
SubBigs(l, r) == GoBig(Minus(l, r))
OpSub(l, r) == BinopTypeSwitch(l, r, SubInts, SubBigs)

(***************************************************************************)
(* funcOpMul:  if r == -1 { return negate(l) }                              *)
(*             if v := l * r; r == 0 || v/r == l { return v }               *)
(*             x.Mul(x, y)                                                  *)
(***************************************************************************)
MulInts(l, r) == IF r = MinusOne THEN Negate(l)
                 ELSE LET v == MMul(l, r) IN
                      IF r = Zero \/ MQuo(v, r) = l THEN GoInt(v) ELSE GoBig(Times(l, r))
MulBigs(l, r) == GoBig(Times(l, r))
OpMul(l, r) == BinopTypeSwitch(l, r, MulInts, MulBigs)

(***************************************************************************)
(* funcOpDiv, ints:  case 0: error; case -1: negate(l);                     *)
(*                   default: if l%r == 0 { return l / r }; float division  *)
(* bigs: r.Sign() == 0: error; d, m := DivMod(l, r) (EUCLIDEAN division);    *)
(*       m.Sign() == 0: d; else bigToFloat(l) / bigToFloat(r)               *)
(***************************************************************************)
DivInts(l, r) == IF r = Zero THEN ErrDiv
                 ELSE IF r = MinusOne THEN Negate(l)
                 ELSE IF MRem(l, r) = Zero THEN GoInt(MQuo(l, r)) ELSE Float
\* big.Int.DivMod: l = d*r + m with 0 <= m < |r|
EMod(l, r) == LET t == TRem(l, r) IN
              IF Less(t, Zero) THEN (IF Less(r, Zero) THEN Minus(t, r) ELSE Plus(t, r)) ELSE t
EQuo(l, r) == LET t == TRem(l, r) q == TQuo(l, r) IN
              IF Less(t, Zero) THEN (IF Less(r, Zero) THEN Minus(q, MinusOne) ELSE Plus(q, MinusOne)) ELSE q
DivBigs(l, r) == IF r = Zero THEN ErrDiv
                 ELSE IF EMod(l, r) = Zero THEN GoBig(EQuo(l, r)) ELSE Float
OpDiv(l, r) == BinopTypeSwitch(l, r, DivInts, DivBigs)

(***************************************************************************)
(* funcOpMod, ints:  case 0: error; case -1: 0; default: l % r              *)
(* bigs: r.Sign() == 0: error; new(big.Int).Rem(l, r)  (truncated)          *)
(***************************************************************************)
ModInts(l, r) == IF r = Zero THEN ErrMod
                 ELSE IF r = MinusOne THEN GoInt(Zero)
                 ELSE GoInt(MRem(l, r))
ModBigs(l, r) == IF r = Zero THEN ErrMod ELSE GoBig(TRem(l, r))
OpMod(l, r) == BinopTypeSwitch(l, r, ModInts, ModBigs)

(***************************************************************************)
(* compare.go: Compare = binopTypeSwitch(cmp.Compare, ..., big.Int.Cmp)  *)
(* and the six operators of operator.go as its projections.                 *)
(***************************************************************************)
Cmp3(l, r) == IF Less(l, r) THEN -1 ELSE IF l = r THEN 0 ELSE 1
Compare(l, r) == BinopTypeSwitch(l, r, Cmp3, Cmp3)
OpEq(l, r) == Compare(l, r) = 0
OpNe(l, r) == Compare(l, r) # 0
OpGt(l, r) == Compare(l, r) > 0
OpLt(l, r) == Compare(l, r) < 0
OpGe(l, r) == Compare(l, r) >= 0
OpLe(l, r) == Compare(l, r) <= 0

(***************************************************************************)
(* Unary operators.  On a json.Number they work on the TEXT:                *)
(*   funcOpNegate: HasPrefix "-" -> v[1:]  else "-" + v                      *)
(*   funcAbs, funcLength: HasPrefix "-" -> v[1:] else v                      *)
(*   funcOpPlus: identity on every representation                           *)
(***************************************************************************)
OpNegate(x) == CASE x.rep = "int"  -> Negate(x.v)
                 [] x.rep = "big"  -> GoBig(Minus(Zero, x.v))
                 [] x.rep = "jnum" -> JNum(~x.neg, x.mag)
OpPlus(x) == x
OpAbs(x) == CASE x.rep = "int"  -> IF Geq(x.v, Zero) THEN x ELSE Negate(x.v)
              [] x.rep = "big"  -> IF Geq(x.v, Zero) THEN x ELSE GoBig(Minus(Zero, x.v))
              [] x.rep = "jnum" -> JNum(FALSE, x.mag)
OpLength(x) == OpAbs(x)           \* funcLength repeats funcAbs on the four number types

Binary(op, l, r) == CASE op = "add" -> OpAdd(l, r)
                      [] op = "sub" -> OpSub(l, r)
                      [] op = "mul" -> OpMul(l, r)
                      [] op = "div" -> OpDiv(l, r)
                      [] op = "mod" -> OpMod(l, r)
Unary(op, x) == CASE op = "neg" -> OpNegate(x)
                  [] op = "plus" -> OpPlus(x)
                  [] op = "abs" -> OpAbs(x)
                  [] op = "length" -> OpLength(x)
Relation(op, l, r) == CASE op = "eq" -> OpEq(l, r)
                        [] op = "ne" -> OpNe(l, r)
                        [] op = "gt" -> OpGt(l, r)
                        [] op = "lt" -> OpLt(l, r)
                        [] op = "ge" -> OpGe(l, r)
                        [] op = "le" -> OpLe(l, r)

BinaryOps == {"add", "sub", "mul", "div", "mod"}
UnaryOps == {"neg", "plus", "abs", "length"}
RelationOps == {"eq", "ne", "gt", "lt", "ge", "le"}

(***************************************************************************)
(* The property (what "mathematically exact" means), stated on the carrier  *)
(* without any reference to words or representations.                       *)
(*   [k |-> "z", v]  an integer;  [k |-> "float"] a non-integral quotient;   *)
(*   [k |-> "err"]   zero divisor.                                          *)
(***************************************************************************)
ExactZ(v) == [k |-> "z", v |-> v]
ExactBinary(op, a, b) ==
  CASE op = "add" -> ExactZ(Plus(a, b))
    [] op = "sub" -> ExactZ(Minus(a, b))
    [] op = "mul" -> ExactZ(Times(a, b))
    [] op = "div" -> IF b = Zero THEN [k |-> "err"]
                     ELSE IF TRem(a, b) = Zero THEN ExactZ(TQuo(a, b)) ELSE [k |-> "float"]
    [] op = "mod" -> IF b = Zero THEN [k |-> "err"] ELSE ExactZ(TRem(a, b))
ExactUnary(op, a) ==
  CASE op = "neg" -> ExactZ(Minus(Zero, a))
    [] op = "plus" -> ExactZ(a)
    [] op \in {"abs", "length"} -> ExactZ(IF Less(a, Zero) THEN Minus(Zero, a) ELSE a)
ExactRelation(op, a, b) ==
  CASE op = "eq" -> a = b
    [] op = "ne" -> a # b
    [] op = "gt" -> Less(b, a)
    [] op = "lt" -> Less(a, b)
    [] op = "ge" -> ~Less(a, b)
    [] op = "le" -> ~Less(b, a)

\* does the modelled outcome x realise the exact outcome e ?
Realises(x, e) ==
  CASE e.k = "z"     -> IsInteger(x) /\ Val(x) = e.v
    [] e.k = "float" -> x.rep = "float"
    [] e.k = "err"   -> x.rep = "err"

\* representation invariant of every modelled outcome
WellFormed(x) ==
  CASE x.rep = "int"  -> FitsInt(x.v)
    [] x.rep = "jnum" -> Geq(x.mag, Zero)
    [] OTHER -> TRUE
=============================================================================
