SPECIFICATION Spec
CONSTANTS
  Profile = "terms"
  MaxLen = 5
INVARIANTS AllInvariants
CHECK_DEADLOCK FALSE
