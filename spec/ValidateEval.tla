---------------------------- MODULE ValidateEval ----------------------------
(***************************************************************************)
(* Trace specification for the "eval" family: every record is one query     *)
(* (as parsed by the real parser) run by the real gojq on some inputs.  TLC *)
(* computes what JqSem prescribes and writes one verdict per run:           *)
(*   agree | mismatch | oom (model does not decide) | long | panic          *)
(***************************************************************************)
EXTENDS JqSem

Trace == ndJsonDeserialize(IOEnv.VERIF_TRACE)

RECURSIVE Match(_, _)
\* does the real value r realise the specified value s (Opaque = some string)
Match(s, r) ==
  IF s.t = "opaque" THEN r.t \in {"str", "opaque"}
  ELSE IF s.t # r.t THEN FALSE
  ELSE CASE s.t = "arr" -> Len(s.a) = Len(r.a) /\ \A i \in 1..Len(s.a) : Match(s.a[i], r.a[i])
         [] s.t = "obj" -> Len(s.o) = Len(r.o) /\ \A i \in 1..Len(s.o) : s.o[i][1] = r.o[i][1] /\ Match(s.o[i][2], r.o[i][2])
         [] OTHER -> s = r

MatchErr(se, re) ==     \* re: the recorded error record, or [k |-> "none"]
  CASE se.k = "none" -> re.k = "none"
    [] se.k = "err" -> re.k = "err" /\ (IF re.v.t = "opaque"
                                        THEN se.v.t = "opaque" \/ (se.v.t = "str" /\ "msgc" \in DOMAIN re /\ se.v.s = re.msgc)     \* a message error whose text the model spells
                                        ELSE Match(se.v, re.v))
    [] se.k = "halt" -> re.k = "halt" /\ Match(se.v, re.v) /\ se.c = re.c
    [] OTHER -> FALSE

RunVerdict(ast, run) ==
  IF "panic" \in DOMAIN run /\ run.panic # "" THEN [v |-> "panic"]
  ELSE IF "long" \in DOMAIN run /\ run.long THEN [v |-> "long"]
  ELSE LET r == Eval(ast, run.in, <<>>, IF "inputs" \in DOMAIN run THEN run.inputs ELSE <<>>)
           re == IF "err" \in DOMAIN run THEN run.err ELSE [k |-> "none"]
       IN IF r.e.k = "oom" THEN [v |-> "oom"]
          ELSE IF Len(r.o) = Len(run.out) /\ (\A i \in 1..Len(r.o) : Match(r.o[i], run.out[i])) /\ MatchErr(r.e, re)
               THEN [v |-> "agree", n |-> Len(r.o), e |-> r.e.k]
               ELSE [v |-> "mismatch", exp |-> [o |-> r.o, e |-> r.e]]

RecVerdict(rec) ==
  IF "runs" \notin DOMAIN rec THEN [id |-> rec.id, runs |-> <<>>]
  ELSE [id |-> rec.id, runs |-> [j \in 1..Len(rec.runs) |-> RunVerdict(rec.ast, rec.runs[j])]]

\* The verdicts are computed and written while TLC computes the (single) initial state.
VARIABLE done
Init == done = ndJsonSerialize(IOEnv.VERIF_OUT, [i \in 1..Len(Trace) |-> RecVerdict(Trace[i])])
Next == UNCHANGED done
=============================================================================
