------------------------------- MODULE Regex -------------------------------
(***************************************************************************)
(* C14: string positions are code points; the regex builtins are the        *)
(* documented compositions of (global) matches.                             *)
(*                                                                         *)
(* The regexp ENGINE is not modelled: it is the environment.  A "probe" is  *)
(* what Go's regexp package answered for one (pattern, subject):            *)
(*   [pat   |-> code points of the pattern handed to regexp.Compile,        *)
(*    ok    |-> did it compile,                                             *)
(*    names |-> SubexpNames()[1:] (<<>> for an unnamed group),              *)
(*    all   |-> FindAllStringSubmatchIndex(s, -1)   raw BYTE offsets,       *)
(*    first |-> FindAllStringSubmatchIndex(s, 1),                           *)
(*    test  |-> MatchString(s)]                                             *)
(* Everything gojq builds around the engine is specified here, structured   *)
(* like the code:                                                          *)
(*   func.go     compileRegexp (flag validation, (?i)/(?s) prefixes),       *)
(*               funcMatch (byte offsets -> code points with                *)
(*               len([]rune(s[:b])), the -1/0/null convention of unmatched   *)
(*               groups, names), funcCaptures, funcLength, explode,         *)
(*               indexString, sliceString (the `range` walks over bytes)    *)
(*   builtin.jq  match, test, capture, scan, splits, split/2, sub, gsub as   *)
(*               their reductions over the match list                       *)
(* and the laws of the property are stated as predicates over these         *)
(* (model-checked in RegexMC.tla, evaluated on every recorded case in       *)
(* ValidateRegex.tla).                                                      *)
(*                                                                         *)
(* Results are [o |-> <<outputs>>, e |-> NoErr | ErrV(v) | OOM] as in       *)
(* Builtins.tla (a stream may have outputs before its error).               *)
(***************************************************************************)
EXTENDS Builtins, Utf8Pos

kCaptures == CpOf(<<"c","a","p","t","u","r","e","s">>)
kLength == CpOf(<<"l","e","n","g","t","h">>)
kName == CpOf(<<"n","a","m","e">>)
kOffset == CpOf(<<"o","f","f","s","e","t">>)
kString == CpOf(<<"s","t","r","i","n","g">>)

StreamErr(e) == [o |-> <<>>, e |-> e]
Failed(r) == r.e # NoErr

-----------------------------------------------------------------------------
(* func.go: compileRegexp                                                   *)
FlagG == 103
FlagI == 105
FlagM == 109
HasCp(s, c) == \E i \in 1..Len(s) : s[i] = c
PrefixI == <<40, 63, 105, 41>>        \* "(?i)"
PrefixS == <<40, 63, 115, 41>>        \* "(?s)"   (jq's flag is spelled m there, s in RE2)

\* the pattern text handed to regexp.Compile
EffectivePattern(re, flags) ==
  LET r1 == IF HasCp(flags, FlagI) THEN PrefixI \o re ELSE re
  IN IF HasCp(flags, FlagM) THEN PrefixS \o r1 ELSE r1

RECURSIVE FindProbe(_, _, _)
FindProbe(tab, pat, i) == IF i > Len(tab) THEN 0 ELSE IF tab[i].pat = pat THEN i ELSE FindProbe(tab, pat, i + 1)

\* P = [subj |-> code points of the probed subject, tab |-> <<probes>>]
\* -> [k |-> "ok", r |-> probe] | [k |-> "err"] | [k |-> "oom"] (the environment was not asked)
CompileRegexp(re, flags, P) ==
  IF \E i \in 1..Len(flags) : flags[i] \notin {FlagG, FlagI, FlagM} THEN [k |-> "err"]      \* unsupported regular expression flag
  ELSE LET j == FindProbe(P.tab, EffectivePattern(re, flags), 1) IN
       IF j = 0 THEN [k |-> "oom"]
       ELSE IF ~P.tab[j].ok THEN [k |-> "err"]                                                \* invalid regular expression
       ELSE [k |-> "ok", r |-> P.tab[j]]

-----------------------------------------------------------------------------
(* func.go: funcMatch.  b = the bytes of the subject, x = one raw match      *)
(* <<lo0, hi0, lo1, hi1, ...>> (0-based byte offsets, -1 = group unmatched). *)
(* cp = TRUE is the code; cp = FALSE is the deviation "offsets stay bytes":  *)
(* RegexMC_bytes.cfg overrides OffsetsInCodePoints with FALSE as the         *)
(* negative control of the model checking run.                              *)
OffsetsInCodePoints == TRUE
PosOf(b, off, cp) == IF cp THEN RuneCountTo(b, off) ELSE off

CaptureObj(b, lo, hi, name, cp) ==
  LET nm == IF name = <<>> THEN Null ELSE Str(name) IN
  IF lo < 0 THEN Obj(<< <<kLength, Num(0)>>, <<kName, nm>>, <<kOffset, Num(-1)>>, <<kString, Null>> >>)
  ELSE Obj(<< <<kLength, Num(PosOf(b, hi, cp) - PosOf(b, lo, cp))>>, <<kName, nm>>,
              <<kOffset, Num(PosOf(b, lo, cp))>>, <<kString, Str(DecSlice(b, lo, hi))>> >>)

MatchObjM(b, x, names, cp) ==
  LET ng == (Len(x) - 2) \div 2 IN
  Obj(<< <<kCaptures, Arr([j \in 1..ng |-> CaptureObj(b, x[2 * j + 1], x[2 * j + 2], names[j], cp)])>>,
         <<kLength, Num(PosOf(b, x[2], cp) - PosOf(b, x[1], cp))>>,
         <<kOffset, Num(PosOf(b, x[1], cp))>>,
         <<kString, Str(DecSlice(b, x[1], x[2]))>> >>)
MatchObj(b, x, names) == MatchObjM(b, x, names, OffsetsInCodePoints)

\* MatchObjects(subject code points, raw byte matches, names)
MatchObjects(s, xs, names) == LET b == Utf8Enc(s) IN [i \in 1..Len(xs) |-> MatchObj(b, xs[i], names)]

\* _match($re; $flags; $test) on input v
FuncMatch(v, re, fs, testing, P) ==
  IF fs.t \notin {"null", "str"} THEN VTypeErr
  ELSE IF v.t # "str" THEN VTypeErr
  ELSE IF re.t # "str" THEN VTypeErr
  ELSE IF v.s # P.subj THEN VOom                       \* the environment was probed for another subject
  ELSE LET flags == IF fs.t = "null" THEN <<>> ELSE fs.s
           c == CompileRegexp(re.s, flags, P)
       IN IF c.k = "oom" THEN VOom
          ELSE IF c.k = "err" THEN VTypeErr
          ELSE IF testing = True THEN V1(Bool(c.r.test))
          ELSE LET xs == IF HasCp(flags, FlagG) THEN c.r.all ELSE c.r.first      \* n = -1 / n = 1
               IN V1(Arr(MatchObjects(v.s, xs, c.r.names)))

\* _captures: object of the NAMED captures (a later group of the same name wins)
FuncCaptures(v) ==
  IF v.t # "arr" THEN VTypeErr
  ELSE LET RECURSIVE F(_, _)
           F(i, w) == IF i > Len(v.a) THEN w
                      ELSE LET c == v.a[i] IN
                           IF c.t = "obj" /\ ObjGet(c.o, kName).t = "str"
                           THEN F(i + 1, ObjPut(w, ObjGet(c.o, kName).s, ObjGet(c.o, kString)))
                           ELSE F(i + 1, w)
       IN V1(Obj(F(1, <<>>)))

-----------------------------------------------------------------------------
(* builtin.jq                                                               *)
Add(a, b) == Arith("_add", a, b)
PlusG(flags) == Add(flags, Str(<<FlagG>>))                \* $flags + "g"   (null + "g" = "g")

\* def match($re; $flags): _match($re; $flags; false)[];
ReMatch(v, re, flags, P) ==
  LET r == FuncMatch(v, re, flags, False, P) IN IF Failed(r) THEN r ELSE VOk(r.o[1].a)

\* def test($re; $flags): _match($re; $flags; true);
ReTest(v, re, flags, P) == FuncMatch(v, re, flags, True, P)

\* match($re; $flags + "g")
MatchG(v, re, flags, P) ==
  LET f == PlusG(flags) IN IF Failed(f) THEN f ELSE ReMatch(v, re, f.o[1], P)

\* The reductions below take the stream m = [o, e] of match objects they consume; Re<Name> feeds them.

\* def capture($re; $flags): match($re; $flags) | .captures | _captures;
CaptureOf(m) ==
  IF Failed(m) THEN m ELSE VOk([i \in 1..Len(m.o) |-> FuncCaptures(ObjGet(m.o[i].o, kCaptures)).o[1]])
ReCapture(v, re, flags, P) == CaptureOf(ReMatch(v, re, flags, P))

\* def scan($re; $flags): match($re; $flags + "g") | if .captures == [] then .string else [.captures[].string] end;
ScanOf(m) ==
  IF Failed(m) THEN m
  ELSE VOk([i \in 1..Len(m.o) |->
              LET caps == ObjGet(m.o[i].o, kCaptures).a IN
              IF Len(caps) = 0 THEN ObjGet(m.o[i].o, kString)
              ELSE Arr([j \in 1..Len(caps) |-> ObjGet(caps[j].o, kString)])])
ReScan(v, re, flags, P) == ScanOf(MatchG(v, re, flags, P))

\* def splits($re; $flags):
\*   .[foreach (match($re; $flags + "g"), null) as {$offset, $length}
\*       (null; {start: .next, end: $offset, next: $offset + $length})];
\* one step per global match plus one for the trailing null (whose $offset and $length are null):
\* the piece from the end of the previous match (.next, null at first) to the start of this one
SplitsOf(v, m) ==
  IF Failed(m) THEN m
  ELSE LET n == Len(m.o)
           off(i) == IF i <= n THEN ObjGet(m.o[i].o, kOffset) ELSE Null
           len(i) == IF i <= n THEN ObjGet(m.o[i].o, kLength) ELSE Null
           RECURSIVE Step(_, _)
           Step(i, next) ==
             IF i > n + 1 THEN VOk(<<>>)
             ELSE LET piece == SliceOf(v, off(i), next)              \* .[{start: .next, end: $offset}]
                      nx == Add(off(i), len(i))
                  IN IF Failed(piece) THEN piece
                     ELSE IF Failed(nx) THEN [o |-> piece.o, e |-> nx.e]
                     ELSE LET rest == Step(i + 1, nx.o[1]) IN [o |-> piece.o \o rest.o, e |-> rest.e]
       IN Step(1, Null)
ReSplits(v, re, flags, P) == SplitsOf(v, MatchG(v, re, flags, P))

\* def split($re; $flags): [splits($re; $flags)];
SplitOf(v, m) ==
  LET s == SplitsOf(v, m) IN IF Failed(s) THEN StreamErr(s.e) ELSE V1(Arr(s.o))
ReSplit(v, re, flags, P) == SplitOf(v, MatchG(v, re, flags, P))

\* def sub($re; str; $flags):
\*   reduce match($re; $flags) as {$offset, $length, $captures}
\*     ({s: ., r: []};
\*       reduce ($captures | _captures | str) as $s
\*         (.i = 0; .r[.i] += .s[.next:$offset] + $s | .i += 1) |
\*       .next = $offset + $length) | .r[] + .s[.next:] // .s;
\* StrF(c) = the stream `str` produces on the captures object c: [o, e].
\* State of the outer reduce: r (one partial result per output position of str) and next.
SubOf(v, m, StrF(_)) ==
  IF Failed(m) THEN m
  ELSE
  LET n == Len(m.o)
      \* inner reduce: the j-th output $s of str extends r[j-1] by  .s[.next:$offset] + $s
      RECURSIVE Inner(_, _, _, _)
      Inner(ss, j, r, pre) ==
        IF j > Len(ss) THEN [k |-> "ok", r |-> r]
        ELSE LET x == Add(pre, ss[j]) IN
             IF Failed(x) THEN [k |-> "err", e |-> x.e]
             ELSE LET cur == IF j <= Len(r) THEN r[j] ELSE Null           \* .r[.i] of a missing index is null
                      y == Add(cur, x.o[1])                               \* . + $x
                  IN IF Failed(y) THEN [k |-> "err", e |-> y.e]
                     ELSE Inner(ss, j + 1, IF j <= Len(r) THEN [r EXCEPT ![j] = y.o[1]] ELSE Append(r, y.o[1]), pre)
      RECURSIVE Outer(_, _, _)
      Outer(k, r, next) ==
        IF k > n THEN [k |-> "ok", r |-> r, next |-> next]
        ELSE LET mo == m.o[k].o
                 off == ObjGet(mo, kOffset)
                 len == ObjGet(mo, kLength)
                 sr == StrF(FuncCaptures(ObjGet(mo, kCaptures)).o[1])
                 pre == SliceOf(v, off, next)                             \* .s[.next:$offset]
             IN IF sr.e = OOM THEN [k |-> "oom"]
                ELSE LET inn == Inner(sr.o, 1, r, pre.o[1]) IN
                     IF inn.k = "err" THEN inn
                     ELSE IF Failed(sr) THEN [k |-> "err", e |-> sr.e]
                     ELSE Outer(k + 1, inn.r, Add(off, len).o[1])         \* .next = $offset + $length
      res == Outer(1, <<>>, Null)
  IN IF res.k = "oom" THEN VOom
     ELSE IF res.k = "err" THEN StreamErr(res.e)
     ELSE LET tail == SliceOf(v, Null, res.next).o[1]                     \* .s[.next:]
              RECURSIVE Emit(_)
              Emit(j) == IF j > Len(res.r) THEN VOk(<<>>)
                         ELSE LET y == Add(res.r[j], tail) IN
                              IF Failed(y) THEN StreamErr(y.e)
                              ELSE LET rest == Emit(j + 1) IN
                                   [o |-> (IF Truthy(y.o[1]) THEN <<y.o[1]>> ELSE <<>>) \o rest.o, e |-> rest.e]
              em == Emit(1)
          IN IF Failed(em) \/ Len(em.o) > 0 THEN em ELSE V1(v)            \* ... // .s
ReSub(v, re, StrF(_), flags, P) == SubOf(v, ReMatch(v, re, flags, P), StrF)

\* def gsub($re; str; $flags): sub($re; str; $flags + "g");
ReGsub(v, re, StrF(_), flags, P) == SubOf(v, MatchG(v, re, flags, P), StrF)

-----------------------------------------------------------------------------
(* Code-point positions: func.go funcLength / explode / indexString /       *)
(* sliceString, written as the code walks the BYTES of the Go string; the   *)
(* abstract meaning (what the property states) is Builtins!IndexOf/SliceOf   *)
(* on the code-point sequence.  RegexMC checks that the two coincide.        *)
StringLengthImpl(b) == Len(Utf8Dec(b))                    \* len([]rune(v))
ExplodeImpl(b) == Utf8Dec(b)                              \* one element per `range` step

RECURSIVE RangeWalk(_, _, _)
\* `for i, r := range s { if k--; k < 0 { return (i, r) } }` from byte index pos (1-based): needs k < number of runes left
RangeWalk(b, pos, k) ==
  LET d == DecodeAt(b, pos) IN
  IF k - 1 < 0 THEN [i |-> pos - 1, r |-> d.r] ELSE RangeWalk(b, pos + d.w, k - 1)

IndexStringImpl(b, i) ==
  LET l == Len(Utf8Dec(b))
      j == ClampIndex(i, -1, l)
  IN IF 0 <= j /\ j < l THEN Str(<<RangeWalk(b, 1, j).r>>) ELSE Null

\* sliceString with start/end already converted by toInt / toIntCeil (hasS/hasE: the bound is not null)
SliceStringImpl(b, hasE, e, hasS, s) ==
  LET l == Len(Utf8Dec(b))
      start == IF hasS THEN ClampIndex(s, 0, l) ELSE 0
      end == IF hasE THEN ClampIndex(e, start, l) ELSE l
      bs == IF start < l THEN RangeWalk(b, 1, start).i ELSE Len(b)
      be == IF end < l THEN RangeWalk(b, 1, end).i ELSE Len(b)
  IN Str(Utf8Dec(ByteSlice(b, bs, be)))

-----------------------------------------------------------------------------
(* The laws of the property, as predicates on specification objects.        *)

\* slicing the subject by a reported (offset, length) returns the reported string
SpanLaw(v, o) ==
  LET off == ObjGet(o, kOffset).n
      len == ObjGet(o, kLength).n
  IN off >= 0 => SliceOf(v, Num(off + len), Num(off)) = V1(ObjGet(o, kString))
MatchSliceLaw(v, mo) ==
  /\ SpanLaw(v, mo.o)
  /\ \A j \in 1..Len(ObjGet(mo.o, kCaptures).a) : SpanLaw(v, ObjGet(mo.o, kCaptures).a[j].o)

\* global matches: at most length + 1, in order, never overlapping, strictly advancing
AdvancingLaw(v, ms) ==
  /\ Len(ms) <= Len(v.s) + 1
  /\ \A i \in 1..Len(ms) : ObjGet(ms[i].o, kOffset).n >= 0 /\ ObjGet(ms[i].o, kOffset).n + ObjGet(ms[i].o, kLength).n <= Len(v.s)
  /\ \A i \in 1..(Len(ms) - 1) :
       /\ ObjGet(ms[i + 1].o, kOffset).n >= ObjGet(ms[i].o, kOffset).n + ObjGet(ms[i].o, kLength).n
       /\ ObjGet(ms[i + 1].o, kOffset).n > ObjGet(ms[i].o, kOffset).n

\* the pieces of splits interleaved with the matched strings rebuild the subject
RECURSIVE Interleave(_, _, _)
Interleave(pieces, ms, i) ==
  IF i > Len(pieces) THEN <<>>
  ELSE pieces[i].s \o (IF i <= Len(ms) THEN ObjGet(ms[i].o, kString).s ELSE <<>>) \o Interleave(pieces, ms, i + 1)
SplitsLaw(v, pieces, ms) == Len(pieces) = Len(ms) + 1 /\ Interleave(pieces, ms, 1) = v.s

\* index/rindex/indices: every reported position is a code-point position of an occurrence
FindLaw(v, t, ix) == \A k \in 1..Len(ix) : SliceOf(v, Num(ix[k].n + Len(t.s)), Num(ix[k].n)) = V1(t)
=============================================================================
