---------------------------- MODULE ModulesTrace ----------------------------
(***************************************************************************)
(* Trace specification of C18.  Every record is one sandbox (file system,    *)
(* search configuration, main query) together with what the real gojq did    *)
(* with it (rec.obs: the single output value, or the classified compile /     *)
(* runtime error).  TLC computes what the property prescribes (Spec = Link /  *)
(* ModuleMeta) and what the code-level machine computes under the switches    *)
(* of today's code, and writes one verdict per record:                       *)
(*   agree      the real behaviour is the property's                          *)
(*   deviation  it is not, but it is exactly what the machine computes with    *)
(*              the deviation switches of today's code on; sw = the switches    *)
(*              it is attributed to (the classifier of a known finding)       *)
(*   mismatch   neither                                                      *)
(*   oom        the model does not decide the case                           *)
(***************************************************************************)
EXTENDS Modules, Json, IOUtils, SequencesExt

Trace == ndJsonDeserialize(IOEnv.VERIF_TRACE)

Same(r, obs) ==
  /\ r.k = obs.k
  /\ CASE r.k = "ok" -> r.v = obs.v
       [] r.k = "err" -> r.e = obs.e
       [] OTHER -> FALSE

(***************************************************************************)
(* Attribution of a deviation to switches: the switches without which the     *)
(* machine would not produce the observation; when every switch alone is      *)
(* dispensable (two deviations each produce it: e.g. slotReuse and             *)
(* hideInclVars for a re-included data import), the switches that alone, over   *)
(* the repaired machine, produce it; else all of them.                        *)
(***************************************************************************)
Necessary(c, obs) == {k \in SwNames : ~Same(Code(c, [SwCode EXCEPT ![k] = FALSE]), obs)}
Sufficient(c, obs) == {k \in SwNames : Same(Code(c, [SwFixed EXCEPT ![k] = TRUE]), obs)}
Attribution(c, obs) ==
  LET nec == Necessary(c, obs) IN
  IF nec # {} THEN nec
  ELSE LET suf == Sufficient(c, obs) IN IF suf # {} THEN suf ELSE SwNames

Verdict(rec) ==
  LET c == rec.c
      obs == rec.obs
      p == Spec(c)
  IN IF p.k = "oom" THEN [id |-> rec.id, v |-> "oom", why |-> p.why]
     ELSE LET i == Code(c, SwCode) IN
          IF Same(p, obs) THEN [id |-> rec.id, v |-> "agree", k |-> p.k, code |-> Same(i, obs)]
          ELSE IF i.k = "oom" THEN [id |-> rec.id, v |-> "oom", why |-> i.why]
          ELSE IF Same(i, obs) THEN [id |-> rec.id, v |-> "deviation", sw |-> SetToSeq(Attribution(c, obs)), exp |-> p]
          ELSE [id |-> rec.id, v |-> "mismatch", exp |-> p, code |-> i]

VARIABLE done
Init == done = ndJsonSerialize(IOEnv.VERIF_OUT, [i \in 1..Len(Trace) |-> Verdict(Trace[i])])
Next == UNCHANGED done
=============================================================================
