------------------------------ MODULE ModulesMC ------------------------------
(***************************************************************************)
(* Model checking of the scope machine of Modules.tla over every tree of      *)
(* ModulesTrees!Trees.  One behaviour = the compilation of one tree; one       *)
(* action per code-level step.                                              *)
(*                                                                         *)
(*  Mode = "fixed": the machine with every deviation switch off.              *)
(*     StepAgree / FinalAgree hold: the shared-list-with-boundaries machine    *)
(*     (rename after the fact, truncate, depth) IS textual inclusion with      *)
(*     namespacing on the whole universe, state by state.                     *)
(*  Mode = "code": the machine as compiler.go is today.  The structural        *)
(*     invariants and CodeOnlyAdds hold; StepAgree is violated (TLC's          *)
(*     counterexample is D10: a module imported later sees the importer's      *)
(*     earlier imports), checked with the config ModulesMC_code_cex.cfg.       *)
(***************************************************************************)
EXTENDS ModulesTrees

CONSTANT Mode
Sw == IF Mode = "code" THEN SwCode ELSE SwFixed

VARIABLES tree, st, ptab
vars == <<tree, st, ptab>>

C == TreeCase(tree)

Init == /\ tree \in Trees
        /\ st = MInit(TreeCase(tree))
        /\ ptab = Link(TreeCase(tree))

Do(kind, next) == /\ StepKind(st) = kind
                  /\ st' = next
                  /\ UNCHANGED <<tree, ptab>>

Start == Do("start", StepStart(C, st))
ImportData == Do("importData", StepImport(C, Sw, st))
ImportModule == Do("importModule", StepImport(C, Sw, st))
FuncDef == Do("funcDef", StepFuncDef(C, Sw, st))
EndModule == Do("endModule", StepEndModule(C, Sw, st))
MainBody == Do("mainBody", StepMainBody(C, Sw, st))

Next == Start \/ ImportData \/ ImportModule \/ FuncDef \/ EndModule \/ MainBody

-----------------------------------------------------------------------------
Weak(e) == IF e.k = "v" THEN [k |-> "v"] ELSE e

\* in this universe every file exists and nothing is undefined
NoFailure == st.ph \in {"run", "done"} /\ ptab.k = "ok"

\* scope.depth counts the module frames; the captured lengths are ordered
Structure ==
  /\ st.depth = Cardinality({i \in 1..Len(st.frames) : ~st.frames[i].main})
  /\ \A i \in 1..Len(st.frames) : st.frames[i].lf <= Len(st.funcs) /\ st.frames[i].lv <= Len(st.vars)
  /\ \A i, j \in 1..Len(st.frames) : i < j => st.frames[i].lf <= st.frames[j].lf /\ st.frames[i].lv <= st.frames[j].lv
  /\ \A i \in 1..Len(st.vars) : st.vars[i].depth <= st.depth \/ ~Sw.hideInclVars
  /\ st.ph = "done" => st.depth = 0 /\ st.frames # <<>>

\* at every site compiled so far, every name of the universe is visible / hidden /
\* resolved to the definition exactly as the property says (variables: visibility;
\* their values are compared in FinalAgree, when the stores are known)
StepAgree ==
  /\ Len(st.tab) <= Len(ptab.tab)
  /\ \A x \in 1..Len(st.tab) :
       /\ st.tab[x].f = ptab.tab[x].f /\ st.tab[x].j = ptab.tab[x].j
       /\ \A y \in 1..Len(TreeUniv) : Weak(st.tab[x].vis[y]) = Weak(ptab.tab[x].vis[y])

FinalAgree == st.ph = "done" => MResult(st) = ptab

\* what the code's leaks do: they only ADD visible function names
CodeOnlyAdds ==
  \A x \in 1..Len(st.tab) : x <= Len(ptab.tab) =>
     \A y \in 1..Len(TreeUniv) : (~TreeUniv[y].var /\ ptab.tab[x].vis[y].k # "-") => st.tab[x].vis[y].k # "-"

\* ... and where the two agree on visibility of a function at a site of the MAIN
\* program they resolve it to the same definition
MainSitesAgree ==
  \A x \in 1..Len(st.tab) : (x <= Len(ptab.tab) /\ st.tab[x].f = 0) =>
     \A y \in 1..Len(TreeUniv) : ~TreeUniv[y].var => st.tab[x].vis[y] = ptab.tab[x].vis[y]
=============================================================================
