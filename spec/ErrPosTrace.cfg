CONSTANTS PRE = 48 CUT = 64 NBH = 128 BUFSZ = 16384 THRESH = 16384 MINREAD = 512 FIXRA = TRUE FIXCR = TRUE
INIT Init
NEXT Next
CHECK_DEADLOCK FALSE
