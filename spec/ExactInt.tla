---------------------------- MODULE ExactInt ----------------------------
(***************************************************************************)
(* Arbitrary-precision integers for TLC (whose own integers are 32 bit and *)
(* raise an error on overflow).  A value Z is [neg |-> BOOLEAN, d |-> digit *)
(* sequence, most significant first, no leading zero]; zero is              *)
(* [neg |-> FALSE, d |-> <<>>].  Schoolbook algorithms.  Used by the value   *)
(* model (exact integer arithmetic of gojq: C10, C11, C03) and by Dates.    *)
(***************************************************************************)
EXTENDS Integers, Sequences

LOCAL Rev(s) == [i \in 1..Len(s) |-> s[Len(s) + 1 - i]]

RECURSIVE StripLead(_)
StripLead(d) == IF Len(d) > 0 /\ d[1] = 0 THEN StripLead(Tail(d)) ELSE d

ZZero == [neg |-> FALSE, d |-> <<>>]
MkZ(neg, d) == LET e == StripLead(d) IN [neg |-> (neg /\ Len(e) > 0), d |-> e]
ZIsZero(z) == Len(z.d) = 0

RECURSIVE NatDigits(_)
NatDigits(n) == IF n = 0 THEN <<>> ELSE Append(NatDigits(n \div 10), n % 10)

\* from a TLC integer (any 32-bit value except -2^31)
ZFromInt(n) == IF n < 0 THEN [neg |-> TRUE, d |-> NatDigits(0 - n)] ELSE [neg |-> FALSE, d |-> NatDigits(n)]

\* magnitude (digit sequences) --------------------------------------------
RECURSIVE MagCmpI(_, _, _)
MagCmpI(a, b, i) == IF i > Len(a) THEN 0 ELSE IF a[i] < b[i] THEN -1 ELSE IF a[i] > b[i] THEN 1 ELSE MagCmpI(a, b, i + 1)
MagCmp(a, b) == IF Len(a) < Len(b) THEN -1 ELSE IF Len(a) > Len(b) THEN 1 ELSE MagCmpI(a, b, 1)

\* little-endian helpers
RECURSIVE LAdd(_, _, _, _)
LAdd(a, b, i, c) ==
  IF i > Len(a) /\ i > Len(b) THEN (IF c = 0 THEN <<>> ELSE <<c>>)
  ELSE LET x == (IF i <= Len(a) THEN a[i] ELSE 0) + (IF i <= Len(b) THEN b[i] ELSE 0) + c
       IN <<x % 10>> \o LAdd(a, b, i + 1, x \div 10)
MagAdd(a, b) == StripLead(Rev(LAdd(Rev(a), Rev(b), 1, 0)))

RECURSIVE LSub(_, _, _, _)
LSub(a, b, i, br) ==  \* a >= b
  IF i > Len(a) THEN <<>>
  ELSE LET x == a[i] - (IF i <= Len(b) THEN b[i] ELSE 0) - br
       IN IF x < 0 THEN <<x + 10>> \o LSub(a, b, i + 1, 1) ELSE <<x>> \o LSub(a, b, i + 1, 0)
MagSub(a, b) == StripLead(Rev(LSub(Rev(a), Rev(b), 1, 0)))

NatDigitsLE(n) == Rev(NatDigits(n))
RECURSIVE LMulD(_, _, _, _)
LMulD(a, m, i, c) ==
  IF i > Len(a) THEN (IF c = 0 THEN <<>> ELSE NatDigitsLE(c))
  ELSE LET x == a[i] * m + c IN <<x % 10>> \o LMulD(a, m, i + 1, x \div 10)
MagMulD(a, m) == IF m = 0 THEN <<>> ELSE StripLead(Rev(LMulD(Rev(a), m, 1, 0)))

RECURSIVE MagMulI(_, _, _, _)
MagMulI(a, b, j, acc) ==   \* acc*10 + a*b[j]
  IF j > Len(b) THEN acc
  ELSE MagMulI(a, b, j + 1, MagAdd(IF Len(acc) = 0 THEN <<>> ELSE Append(acc, 0), MagMulD(a, b[j])))
MagMul(a, b) == IF Len(a) = 0 \/ Len(b) = 0 THEN <<>> ELSE MagMulI(a, b, 1, <<>>)

RECURSIVE QDigit(_, _, _)
QDigit(r, b, q) == IF MagCmp(r, b) < 0 THEN [q |-> q, r |-> r] ELSE QDigit(MagSub(r, b), b, q + 1)
RECURSIVE MagDivModI(_, _, _, _, _)
MagDivModI(a, b, i, q, r) ==
  IF i > Len(a) THEN [q |-> StripLead(q), r |-> r]
  ELSE LET r1 == StripLead(Append(r, a[i]))
           s == QDigit(r1, b, 0)
       IN MagDivModI(a, b, i + 1, Append(q, s.q), s.r)
MagDivMod(a, b) == MagDivModI(a, b, 1, <<>>, <<>>)     \* b # 0

\* signed ------------------------------------------------------------------
ZNeg(z) == IF ZIsZero(z) THEN z ELSE [z EXCEPT !.neg = ~z.neg]
ZAbs(z) == [z EXCEPT !.neg = FALSE]
ZSign(z) == IF ZIsZero(z) THEN 0 ELSE IF z.neg THEN -1 ELSE 1
ZCmp(a, b) ==
  IF a.neg # b.neg THEN (IF a.neg THEN -1 ELSE 1)
  ELSE IF a.neg THEN MagCmp(b.d, a.d) ELSE MagCmp(a.d, b.d)
ZAdd(a, b) ==
  IF a.neg = b.neg THEN MkZ(a.neg, MagAdd(a.d, b.d))
  ELSE LET c == MagCmp(a.d, b.d) IN
       IF c = 0 THEN ZZero
       ELSE IF c > 0 THEN MkZ(a.neg, MagSub(a.d, b.d)) ELSE MkZ(b.neg, MagSub(b.d, a.d))
ZSub(a, b) == ZAdd(a, ZNeg(b))
ZMul(a, b) == MkZ(a.neg # b.neg, MagMul(a.d, b.d))
\* truncated division (quotient rounds toward zero, remainder has the sign of the dividend)
ZDivMod(a, b) == LET s == MagDivMod(a.d, b.d) IN [q |-> MkZ(a.neg # b.neg, s.q), r |-> MkZ(a.neg, s.r)]

\* does |z| fit below 2^30 = 1073741824 ?
Lim30 == <<1, 0, 7, 3, 7, 4, 1, 8, 2, 4>>
ZIsSmall(z) == MagCmp(z.d, Lim30) < 0
RECURSIVE MagToInt(_, _, _)
MagToInt(d, i, acc) == IF i > Len(d) THEN acc ELSE MagToInt(d, i + 1, acc * 10 + d[i])
ZToInt(z) == LET m == MagToInt(z.d, 1, 0) IN IF z.neg THEN 0 - m ELSE m     \* requires ZIsSmall(z)

\* 2^k as Z, k >= 0
RECURSIVE ZPow2(_)
ZPow2(k) == IF k = 0 THEN ZFromInt(1) ELSE LET p == ZPow2(k - 1) IN ZAdd(p, p)
=============================================================================
