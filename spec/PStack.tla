------------------------------ MODULE PStack ------------------------------
(***************************************************************************)
(* The persistent stack of stack.go / scope_stack.go.                      *)
(*                                                                         *)
(*   data   sequence of blocks [v |-> value, next |-> index of the block   *)
(*          below, 0 = none]      (1-based here; the code is 0-based with  *)
(*          -1 for none)                                                   *)
(*   index  top block (0 = empty)                                          *)
(*   limit  highest index that a pending save() still needs                *)
(*                                                                         *)
(* push writes at max(index, limit) + 1, so blocks at or below the limit   *)
(* are never overwritten: a fork that saved (index, limit) can restore     *)
(* them later and finds its contents intact.  This module is used as a      *)
(* library by VM.tla; PStackMC.tla model-checks it as a state machine        *)
(* against immutable lists.                                                 *)
(***************************************************************************)
EXTENDS Integers, Sequences

PSEmpty == [data |-> <<>>, index |-> 0, limit |-> 0]
PSMax(a, b) == IF a > b THEN a ELSE b
PSPush(s, v) ==
  LET ni == PSMax(s.index, s.limit) + 1
      b == [v |-> v, next |-> s.index]
  IN [s EXCEPT !.data = IF ni <= Len(s.data) THEN [s.data EXCEPT ![ni] = b] ELSE Append(s.data, b),
               !.index = ni]
PSTop(s) == s.data[s.index].v
PSPop(s) == [s EXCEPT !.index = s.data[s.index].next]
PSIsEmpty(s) == s.index = 0
\* save(): returns (index, limit) and raises the limit
PSSave(s) == [s EXCEPT !.limit = PSMax(s.index, s.limit)]
PSRestore(s, index, limit) == [s EXCEPT !.index = index, !.limit = limit]
RECURSIVE PSContentsI(_, _)
PSContentsI(s, i) == IF i = 0 THEN <<>> ELSE <<s.data[i].v>> \o PSContentsI(s, s.data[i].next)
\* logical contents, top first
PSContents(s) == PSContentsI(s, s.index)
RECURSIVE PSDepthI(_, _)
PSDepthI(s, i) == IF i = 0 THEN 0 ELSE 1 + PSDepthI(s, s.data[i].next)
PSDepth(s) == PSDepthI(s, s.index)
\* well-formedness: next pointers go strictly down
PSWF(s) == /\ s.index \in 0..Len(s.data) /\ s.limit \in 0..Len(s.data)
           /\ \A i \in 1..Len(s.data) : s.data[i].next \in 0..(i - 1)
=============================================================================
