------------------------------ MODULE NumLitGen ------------------------------
(***************************************************************************)
(* C10, model -> code: TLC enumerates JSON number literals of every lexical *)
(* shape as code-point sequences: sign x integer part x fraction x exponent *)
(* (mark, sign, digits with leading zeros, magnitudes around every          *)
(* threshold of the printing laws).  The integer parts include the          *)
(* boundaries of the number representations (2^53+1, 2^63-1, 2^63, 2^64,    *)
(* 10^20, 10^21, 40 digits), computed with ExactInt.  Every generated text  *)
(* is checked to be a JSON number (IsJsonNumber) before it is written.      *)
(* VERIF_N selects a seeded random subset (quick tier) or everything.       *)
(***************************************************************************)
EXTENDS NumLit, TLC, Json, IOUtils, SequencesExt, Randomization

Signs == {<<>>, <<Minus>>}

Forty == <<1,2,3,4,5,6,7,8,9,0,1,2,3,4,5,6,7,8,9,0,1,2,3,4,5,6,7,8,9,0,1,2,3,4,5,6,7,8,9,7>>
IntParts == { DigitCps(d) : d \in {
    <<0>>, <<7>>, <<1, 0>>, <<1, 2, 3>>, <<9, 9, 9, 9, 9, 9>>,
    ZAdd(ZPow2(53), ZFromInt(1)).d,                   \* first integer a double cannot hold
    ZSub(ZPow2(63), ZFromInt(1)).d, ZPow2(63).d,      \* MaxInt64 and its successor
    ZPow2(64).d,
    <<1>> \o Zeros(20), <<1>> \o Zeros(21),           \* 1e20 / 1e21: switch of the float format
    <<9>> \o Zeros(20),
    Forty } }

Thirty == <<1,2,3,4,5,6,7,8,9,0,1,2,3,4,5,6,7,8,9,0,1,2,3,4,5,6,7,8,9,1>>
Fracs == {<<>>} \cup { <<Dot>> \o DigitCps(d) : d \in {
    <<0>>, <<0, 0, 0>>, <<5>>, <<2, 5>>, <<1, 0>>, <<0, 0, 0, 0, 0, 1>>, <<0, 0, 0, 0, 0, 0, 1>>,
    <<0, 0, 0, 0, 0, 0, 9, 9>>, Thirty } }

ExpDigits == { DigitCps(d) : d \in {
    <<0>>, <<0, 0>>, <<1>>, <<0, 1>>, <<2>>, <<5>>, <<6>>, <<7>>, <<0, 0, 9>>, <<2, 0>>, <<2, 1>>, <<2, 2>>,
    <<4, 0>>, <<3, 0, 7>>, <<3, 0, 8>>, <<3, 0, 9>>, <<3, 2, 4>>, <<4, 0, 0>>, <<9, 9, 9, 9, 9, 9>>,
    <<9, 9, 9, 9, 9, 9, 9, 9, 9, 9, 9, 9>> } }
Exps == {<<>>} \cup { <<m>> \o s \o d : m \in {LowE, UpE}, s \in {<<>>, <<PlusC>>, <<Minus>>}, d \in ExpDigits }

Literals == { s \o i \o f \o e : s \in Signs, i \in IntParts, f \in Fracs, e \in Exps }

\* integer-shaped literals (always included): the values around every representation boundary
Near(z) == {ZSub(z, ZFromInt(1)).d, z.d, ZAdd(z, ZFromInt(1)).d}
IntegerLiterals ==
  { s \o DigitCps(d) : s \in Signs,
      d \in {<<0>>, <<1>>, <<7>>, <<4, 2>>, Forty, <<1>> \o Zeros(20), <<1>> \o Zeros(21), <<1>> \o Zeros(39)}
           \cup UNION { Near(ZPow2(k)) : k \in {31, 32, 52, 53, 54, 62, 63, 64, 65, 100, 127, 128, 130} } }

\* VERIF_N = 0: all of them; otherwise a seeded random subset of that size (TLC -seed)
N == atoi(IOEnv.VERIF_N)
Chosen == (IF N = 0 \/ N >= Cardinality(Literals) THEN Literals ELSE RandomSubset(N, Literals)) \cup IntegerLiterals

Out == LET seq == SetToSeq({t \in Chosen : IsJsonNumber(t)}) IN [k \in 1..Len(seq) |-> [id |-> k, lit |-> seq[k]]]

\* every text over the scanner alphabet up to VERIF_TEXTLEN code points (for tonumber / query literals)
Alphabet == {Minus, PlusC, Dot, 48, 49, 57, LowE, UpE, 97}
RECURSIVE Texts(_)
Texts(n) == IF n = 0 THEN {<<>>} ELSE LET T == Texts(n - 1) IN T \cup {Append(t, c) : t \in {u \in T : Len(u) = n - 1}, c \in Alphabet}
TextLen == atoi(IOEnv.VERIF_TEXTLEN)
TextOut == LET seq == SetToSeq(Texts(TextLen) \ {<<>>}) IN [k \in 1..Len(seq) |-> [id |-> k, t |-> seq[k]]]

\* the generator is sound: nothing was filtered out
VARIABLE done
Init == /\ Len(Out) = Cardinality(Chosen)
        /\ done = (ndJsonSerialize(IOEnv.VERIF_OUT, Out) /\ ndJsonSerialize(IOEnv.VERIF_OUT2, TextOut))
Next == UNCHANGED done
=============================================================================
