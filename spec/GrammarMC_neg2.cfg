\* negative control: with the deviation "emptyImport" switched on the printer must FAIL the round-trip law
\* (TLC finds `import "" as a ;`)
SPECIFICATION Spec
CONSTANTS
  Profile = "modules"
  MaxLen = 5
INVARIANTS NegEmptyImport
CHECK_DEADLOCK FALSE
