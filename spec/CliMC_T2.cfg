\* thorough 2: family B with <= 3 documents x <= 3 events (reduced alphabet: null, 1, error, halt)
CONSTANTS
  MaxDocs = 3
  MaxEv = 3
  MaxDocsA = 1
  MaxEvA = 1
  Rich = FALSE
  Side = FALSE
INIT MCInit
NEXT Next
INVARIANTS TypeOK StdoutIsRenderedOutputs StderrIsDiagnostics EndState StatusBookkeeping HaltStops AllInputsProcessed StatusTable
PROPERTIES NothingAfterHalt StdoutOnlyGrows ExitSetOnce
CHECK_DEADLOCK TRUE
