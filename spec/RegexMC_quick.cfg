SPECIFICATION Spec
CONSTANTS
  Alphabet = {97, 233, 8364, 128512}
  MaxLen = 2
  WithGroup2 = TRUE
INVARIANTS TypeOK SliceInv AdvanceInv GsubIdentityInv GsubConstInv SplitsInv TestInv CaptureInv PositionsInv
PROPERTY Progress
CHECK_DEADLOCK FALSE
