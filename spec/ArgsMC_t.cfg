CONSTANTS
  MaxLen = 6
INIT Init
NEXT Next
INVARIANTS NamedRefines NamesUnique PositionalRefines SlicesComplementary RestShape OracleAgrees
CHECK_DEADLOCK TRUE
