--------------------------- MODULE ValidateDates ---------------------------
(* Trace spec: records {id, days, sod, gm: <<8 ints>>, text: code points, rt1/rt2: [days, sod]} recorded from the real gmtime, todate,
   gmtime|mktime, todate|fromdate on whole-second epochs (epoch = days * 86400 + sod, split by the harness) against Dates.tla. *)
EXTENDS Dates, TLC, Json, IOUtils
T == ndJsonDeserialize(IOEnv.VERIF_TRACE)
V(r) == [id |-> r.id,
         gm |-> r.gm = Gmtime(r.days, r.sod),
         text |-> r.text = DateText(r.days, r.sod),
         rt1 |-> r.rt1 = [days |-> r.days, sod |-> r.sod],
         rt2 |-> r.rt2 = [days |-> r.days, sod |-> r.sod]]
VARIABLE done
Init == done = ndJsonSerialize(IOEnv.VERIF_OUT, [k \in 1..Len(T) |-> V(T[k])])
Next == UNCHANGED done
=============================================================================
