------------------------------- MODULE Lexer -------------------------------
(***************************************************************************)
(* The lexer of gojq (lexer.go) over a query text given as a sequence of    *)
(* BYTES (TLC has no character access on strings, and the real lexer is a   *)
(* byte machine).  Offsets are 0-based as in the Go code: Byte(src, off) is *)
(* l.source[off], and 0 past the end - exactly what lexer.peek() returns.   *)
(*                                                                         *)
(*   ScanNumber      lexer.scanNumber (recursive transcription) and the     *)
(*   NumDelta/...    same scanner as a one-byte-per-step DFA (LexerNumMC    *)
(*                   explores it and proves both equal to a regular         *)
(*                   expression on every string up to a length bound)       *)
(*   SkipComment     lexer.skipComment      NextByte     lexer.next         *)
(*   ScanStr / Unq   lexer.scanString and its unquote (encoding/json rules) *)
(*   LexNormal       the token switch of lexer.Lex (maximal munch)          *)
(*   LexAll          the token sequence of a whole text.  lexer.inString is *)
(*                   switched back on by the PARSER when it reduces         *)
(*                   `stringparts tokStringQuery query ')'`; here the lexer *)
(*                   keeps a stack of parenthesis depths instead, which     *)
(*                   selects the same ')' on every text the parser accepts  *)
(*                   up to that point (all grammar rules pair '(' and ')'). *)
(*                   The sequence is closed by an eof token; a NUL byte     *)
(*                   outside a string literal ends the text (Lex returns 0, *)
(*                   goyacc's end marker), as does a NUL inside a comment.  *)
(*                                                                         *)
(* A token is [t, x, s, v, b, e]: type, detail (keyword / operator / char   *)
(* as a TLC string), the bytes of the token text, the decoded code points   *)
(* of a string token, begin and end offset.                                 *)
(***************************************************************************)
EXTENDS Integers, Sequences

Byte(src, off) == IF off >= 0 /\ off < Len(src) THEN src[off + 1] ELSE 0
Slice(src, a, b) == SubSeq(src, a + 1, b)          \* l.source[a:b]

IsWhite(c) == c \in {9, 10, 13, 32}
IsDigit(c) == c >= 48 /\ c <= 57
IsIdentStart(c) == (c >= 97 /\ c <= 122) \/ (c >= 65 /\ c <= 90) \/ c = 95
IsIdentTail(c) == IsIdentStart(c) \/ IsDigit(c)
IsHex(c) == IsDigit(c) \/ (c >= 97 /\ c <= 102) \/ (c >= 65 /\ c <= 70)
HexVal(c) == IF IsDigit(c) THEN c - 48 ELSE IF c >= 97 THEN c - 87 ELSE c - 55

----------------------------------------------------------------------------
(* Numbers: lexer.scanNumber.  The result is the end offset of the token,   *)
(* or the negated end offset of the invalid token.                          *)

RECURSIVE ScanNumber(_, _, _)
ScanNumber(src, off, st) ==
  LET ch == Byte(src, off) IN
  IF st \in {"Lead", "Float"} THEN
    IF IsDigit(ch) THEN ScanNumber(src, off + 1, st)
    ELSE IF ch = 46 THEN (IF st # "Lead" THEN 0 - (off + 1) ELSE ScanNumber(src, off + 1, "Float"))
    ELSE IF ch \in {101, 69} THEN
      ScanNumber(src, IF Byte(src, off + 1) \in {45, 43} THEN off + 2 ELSE off + 1, "ExpLead")
    ELSE IF IsIdentStart(ch) THEN 0 - (off + 1)
    ELSE off
  ELSE \* ExpLead, Exp
    IF ~IsDigit(ch) THEN
      IF IsIdentStart(ch) THEN 0 - (off + 1)
      ELSE IF st = "ExpLead" THEN 0 - off
      ELSE off
    ELSE ScanNumber(src, off + 1, "Exp")

\* lexer.validNumber: what `tonumber` accepts (the whole string must be one number)
ValidNumber(src) ==
  LET o1 == IF Byte(src, 0) \in {43, 45} THEN 1 ELSE 0
      dot == Byte(src, o1) = 46
      o2 == IF dot THEN o1 + 1 ELSE o1
  IN IsDigit(Byte(src, o2)) /\ ScanNumber(src, o2, IF dot THEN "Float" ELSE "Lead") = Len(src)

(* The same scanner as a deterministic automaton reading one byte per step. *)
(* The two-byte look of the 'e' case (optional sign) becomes the state      *)
(* ExpSign.  Acc = the token ended before this byte; Err = invalid token    *)
(* including this byte; ErrAt = invalid token ending before this byte.      *)
NumDelta(st, ch) ==
  CASE st \in {"Lead", "Float"} ->
         IF IsDigit(ch) THEN st
         ELSE IF ch = 46 THEN (IF st = "Lead" THEN "Float" ELSE "Err")
         ELSE IF ch \in {101, 69} THEN "ExpSign"
         ELSE IF IsIdentStart(ch) THEN "Err" ELSE "Acc"
    [] st = "ExpSign" ->
         IF ch \in {45, 43} THEN "ExpLead"
         ELSE IF IsDigit(ch) THEN "Exp"
         ELSE IF IsIdentStart(ch) THEN "Err" ELSE "ErrAt"
    [] st = "ExpLead" ->
         IF IsDigit(ch) THEN "Exp"
         ELSE IF IsIdentStart(ch) THEN "Err" ELSE "ErrAt"
    [] st = "Exp" ->
         IF IsDigit(ch) THEN "Exp"
         ELSE IF IsIdentStart(ch) THEN "Err" ELSE "Acc"
    [] OTHER -> st
NumLive(st) == st \in {"Lead", "Float", "ExpSign", "ExpLead", "Exp"}
\* verdict when the text ends in state st (peek() = 0 is neither digit nor identifier)
NumAtEnd(st) == st \in {"Lead", "Float", "Exp"}

----------------------------------------------------------------------------
(* White space and comments: lexer.next / lexer.skipComment.                *)

RECURSIVE SkipComment(_, _)
\* offset of the line end that stops the comment; when the text ends in the comment (peek() = 0:
\* the end of the text, or a NUL byte) the negative number -(o + 1), o = the offset reached
SkipComment(src, off) ==
  LET ch == Byte(src, off) IN
  IF ch = 0 THEN 0 - (off + 1)
  ELSE IF ch = 92 THEN
    LET c2 == Byte(src, off + 1) IN
    IF c2 \in {92, 10} THEN SkipComment(src, off + 2)
    ELSE IF c2 = 13 THEN SkipComment(src, IF Byte(src, off + 2) = 10 THEN off + 3 ELSE off + 2)
    ELSE SkipComment(src, off + 1)
  ELSE IF ch \in {10, 13} THEN off
  ELSE SkipComment(src, off + 1)

RECURSIVE NextByte(_, _)
\* offset of the first byte of the next token; at the end of the text -(o + 1), o = the final offset.
\* Precondition off < Len(src).
NextByte(src, off) ==
  LET ch == Byte(src, off) IN
  IF ch = 35 THEN (LET o == SkipComment(src, off + 1) IN IF o < 0 THEN o ELSE NextByte(src, o))
  ELSE IF ~IsWhite(ch) THEN off
  ELSE IF off + 1 = Len(src) THEN 0 - (off + 2)
  ELSE NextByte(src, off + 1)

----------------------------------------------------------------------------
(* UTF-8 as Go's utf8.DecodeRune: an invalid or truncated sequence is one   *)
(* U+FFFD of width 1.                                                       *)

IsCont(c) == c >= 128 /\ c <= 191
DecodeRune(src, a, lim) ==        \* bytes src[a:lim], a < lim
  LET b0 == Byte(src, a)
      b1 == IF a + 1 < lim THEN Byte(src, a + 1) ELSE 0
      b2 == IF a + 2 < lim THEN Byte(src, a + 2) ELSE 0
      b3 == IF a + 3 < lim THEN Byte(src, a + 3) ELSE 0
      bad == [cp |-> 65533, n |-> 1]
  IN IF b0 < 128 THEN [cp |-> b0, n |-> 1]
     ELSE IF b0 >= 194 /\ b0 <= 223 THEN
       (IF IsCont(b1) THEN [cp |-> (b0 - 192) * 64 + (b1 - 128), n |-> 2] ELSE bad)
     ELSE IF b0 >= 224 /\ b0 <= 239 THEN
       LET lo == IF b0 = 224 THEN 160 ELSE 128
           hi == IF b0 = 237 THEN 159 ELSE 191
       IN IF b1 >= lo /\ b1 <= hi /\ IsCont(b2)
          THEN [cp |-> (b0 - 224) * 4096 + (b1 - 128) * 64 + (b2 - 128), n |-> 3] ELSE bad
     ELSE IF b0 >= 240 /\ b0 <= 244 THEN
       LET lo == IF b0 = 240 THEN 144 ELSE 128
           hi == IF b0 = 244 THEN 143 ELSE 191
       IN IF b1 >= lo /\ b1 <= hi /\ IsCont(b2) /\ IsCont(b3)
          THEN [cp |-> (b0 - 240) * 262144 + (b1 - 128) * 4096 + (b2 - 128) * 64 + (b3 - 128), n |-> 4] ELSE bad
     ELSE bad

EncodeRune(c) ==
  IF c < 128 THEN <<c>>
  ELSE IF c < 2048 THEN <<192 + (c \div 64), 128 + (c % 64)>>
  ELSE IF c < 65536 THEN <<224 + (c \div 4096), 128 + ((c \div 64) % 64), 128 + (c % 64)>>
  ELSE <<240 + (c \div 262144), 128 + ((c \div 4096) % 64), 128 + ((c \div 64) % 64), 128 + (c % 64)>>

----------------------------------------------------------------------------
(* Strings: lexer.scanString.  start = offset of the token text, off0 =      *)
(* l.offset at the call, inStr = l.inString, i = loop index (at a byte).    *)

Hex4(src, a) == HexVal(Byte(src, a)) * 4096 + HexVal(Byte(src, a + 1)) * 256 + HexVal(Byte(src, a + 2)) * 16 + HexVal(Byte(src, a + 3))

RECURSIVE ScanStr(_, _, _, _, _)
ScanStr(src, start, off0, inStr, i) ==
  IF i >= Len(src) THEN [t |-> "unterminated", b |-> Len(src), e |-> Len(src), ca |-> 0, cb |-> 0]
  ELSE
    LET ch == Byte(src, i) IN
    IF ch = 92 THEN
      IF i + 1 >= Len(src) THEN [t |-> "unterminated", b |-> Len(src), e |-> Len(src), ca |-> 0, cb |-> 0]
      ELSE
        LET c2 == Byte(src, i + 1) IN
        IF c2 = 117 THEN
          LET badj == {j \in 1..4 : i + 1 + j >= Len(src) \/ ~IsHex(Byte(src, i + 1 + j))} IN
          IF badj # {} THEN
            LET j == CHOOSE x \in badj : \A y \in badj : x <= y IN
            [t |-> "badescape", b |-> i, e |-> i + 1 + j, ca |-> 0, cb |-> 0]
          ELSE ScanStr(src, start, off0, inStr, i + 6)
        ELSE IF c2 \in {34, 47, 92, 98, 102, 110, 114, 116} THEN ScanStr(src, start, off0, inStr, i + 2)
        ELSE IF c2 = 40 THEN
          IF ~inStr THEN [t |-> "strstart", b |-> start, e |-> off0, ca |-> 0, cb |-> 0]
          ELSE IF i = off0 THEN [t |-> "strquery", b |-> off0, e |-> off0 + 2, ca |-> 0, cb |-> 0]
          ELSE [t |-> "string", b |-> start, e |-> i, ca |-> off0, cb |-> i]
        ELSE [t |-> "badescape", b |-> i, e |-> i + 2, ca |-> 0, cb |-> 0]
    ELSE IF ch = 34 THEN
      IF ~inStr THEN [t |-> "string", b |-> start, e |-> i + 1, ca |-> start + 1, cb |-> i]
      ELSE IF i > off0 THEN [t |-> "string", b |-> start, e |-> i, ca |-> off0, cb |-> i]
      ELSE [t |-> "strend", b |-> i, e |-> i + 1, ca |-> 0, cb |-> 0]
    ELSE ScanStr(src, start, off0, inStr, i + 1)

EscChar(d) == CASE d = 98 -> 8 [] d = 102 -> 12 [] d = 110 -> 10 [] d = 114 -> 13 [] d = 116 -> 9 [] OTHER -> d

RECURSIVE Unq(_, _, _)
\* the code points of the string whose (validated) literal text is src[a:b]:
\* unquote of lexer.go = json.Unmarshal after escaping raw control characters
Unq(src, a, b) ==
  IF a >= b THEN <<>>
  ELSE
    LET c == Byte(src, a) IN
    IF c = 92 THEN
      LET d == Byte(src, a + 1) IN
      IF d = 117 THEN
        LET u == Hex4(src, a + 2) IN
        IF u >= 55296 /\ u <= 57343 THEN
          LET hasNext == a + 12 <= b /\ Byte(src, a + 6) = 92 /\ Byte(src, a + 7) = 117
              u2 == IF hasNext THEN Hex4(src, a + 8) ELSE 0
          IN IF hasNext /\ u < 56320 /\ u2 >= 56320 /\ u2 <= 57343
             THEN <<65536 + (u - 55296) * 1024 + (u2 - 56320)>> \o Unq(src, a + 12, b)
             ELSE <<65533>> \o Unq(src, a + 6, b)
        ELSE <<u>> \o Unq(src, a + 6, b)
      ELSE <<EscChar(d)>> \o Unq(src, a + 2, b)
    ELSE IF c < 128 THEN <<c>> \o Unq(src, a + 1, b)
    ELSE LET r == DecodeRune(src, a, b) IN <<r.cp>> \o Unq(src, a + r.n, b)

----------------------------------------------------------------------------
(* The token switch of lexer.Lex.                                           *)

Keywords == {
  <<"or", <<111,114>> >>, <<"and", <<97,110,100>> >>, <<"module", <<109,111,100,117,108,101>> >>,
  <<"import", <<105,109,112,111,114,116>> >>, <<"include", <<105,110,99,108,117,100,101>> >>,
  <<"def", <<100,101,102>> >>, <<"as", <<97,115>> >>, <<"label", <<108,97,98,101,108>> >>,
  <<"break", <<98,114,101,97,107>> >>, <<"null", <<110,117,108,108>> >>, <<"true", <<116,114,117,101>> >>,
  <<"false", <<102,97,108,115,101>> >>, <<"if", <<105,102>> >>, <<"then", <<116,104,101,110>> >>,
  <<"elif", <<101,108,105,102>> >>, <<"else", <<101,108,115,101>> >>, <<"end", <<101,110,100>> >>,
  <<"try", <<116,114,121>> >>, <<"catch", <<99,97,116,99,104>> >>, <<"reduce", <<114,101,100,117,99,101>> >>,
  <<"foreach", <<102,111,114,101,97,99,104>> >> }
KeywordBytes == {k[2] : k \in Keywords}
KeywordName(bs) == (CHOOSE k \in Keywords : k[2] = bs)[1]

CharName(c) ==
  CASE c = 40 -> "(" [] c = 41 -> ")" [] c = 91 -> "[" [] c = 93 -> "]" [] c = 123 -> "{" [] c = 125 -> "}"
    [] c = 124 -> "|" [] c = 44 -> "," [] c = 58 -> ":" [] c = 59 -> ";" [] c = 46 -> "." [] c = 63 -> "?"
    [] c = 43 -> "+" [] c = 45 -> "-" [] c = 42 -> "*" [] c = 47 -> "/" [] c = 37 -> "%"
    [] OTHER -> "other"

ScanIdent(src, off) ==
  LET RECURSIVE F(_)
      F(o) == IF IsIdentTail(Byte(src, o)) THEN F(o + 1) ELSE o
  IN F(off)

\* lexer.scanIdentOrModule, called with the offset after the first identifier byte
ScanIdentOrModule(src, off) ==
  LET idx == ScanIdent(src, off) IN
  IF Byte(src, idx) = 58 /\ Byte(src, idx + 1) = 58 /\ IsIdentStart(Byte(src, idx + 2))
  THEN [e |-> ScanIdent(src, idx + 3), m |-> TRUE]
  ELSE [e |-> idx, m |-> FALSE]

Tok(src, t, x, b, e) == [t |-> t, x |-> x, s |-> Slice(src, b, e), v |-> <<>>, b |-> b, e |-> e]
StrTok(src, r) == [t |-> r.t, x |-> "", s |-> Slice(src, r.b, r.e), b |-> r.b, e |-> r.e,
                   v |-> IF r.t = "string" THEN Unq(src, r.ca, r.cb) ELSE <<>>]

IsLexError(tk) == tk.t \in {"invalid", "badescape", "unterminated"}

\* the token that starts at offset p (a byte that is neither white space nor '#')
LexNormal(src, p) ==
  LET ch == Byte(src, p)
      c1 == Byte(src, p + 1)
      c2 == Byte(src, p + 2)
      Num(st, from) == LET j == ScanNumber(src, from, st) IN
                       IF j < 0 THEN Tok(src, "invalid", "", p, 0 - j) ELSE Tok(src, "number", "", p, j)
      Op2(t, x) == Tok(src, t, x, p, p + 2)
      Chr == Tok(src, "c", CharName(ch), p, p + 1)
  IN
  IF ch = 0 THEN Tok(src, "eof", "", p, p)      \* Lex returns 0: yacc's end marker
  ELSE IF IsIdentStart(ch) THEN
    LET r == ScanIdentOrModule(src, p + 1)
        txt == Slice(src, p, r.e)
    IN IF r.m THEN Tok(src, "modident", "", p, r.e)
       ELSE IF txt \in KeywordBytes THEN Tok(src, "kw", KeywordName(txt), p, r.e)
       ELSE Tok(src, "ident", "", p, r.e)
  ELSE IF IsDigit(ch) THEN Num("Lead", p + 1)
  ELSE CASE ch = 46 ->
              IF c1 = 46 THEN Tok(src, "recurse", "", p, p + 2)
              ELSE IF IsIdentStart(c1) THEN Tok(src, "index", "", p, ScanIdent(src, p + 1))
              ELSE IF IsDigit(c1) THEN Num("Float", p + 1)
              ELSE Chr
         [] ch = 36 ->
              IF IsIdentStart(c1) THEN
                LET r == ScanIdentOrModule(src, p + 1) IN
                Tok(src, IF r.m THEN "modvariable" ELSE "variable", "", p, r.e)
              ELSE Chr
         [] ch = 124 -> IF c1 = 61 THEN Op2("updateop", "|=") ELSE Chr
         [] ch = 63 -> IF c1 = 47 /\ c2 = 47 THEN Tok(src, "destaltop", "?//", p, p + 3) ELSE Chr
         [] ch = 43 -> IF c1 = 61 THEN Op2("updateop", "+=") ELSE Chr
         [] ch = 45 -> IF c1 = 61 THEN Op2("updateop", "-=") ELSE Chr
         [] ch = 42 -> IF c1 = 61 THEN Op2("updateop", "*=") ELSE Chr
         [] ch = 47 ->
              IF c1 = 61 THEN Op2("updateop", "/=")
              ELSE IF c1 = 47 THEN (IF c2 = 61 THEN Tok(src, "updateop", "//=", p, p + 3) ELSE Op2("altop", "//"))
              ELSE Chr
         [] ch = 37 -> IF c1 = 61 THEN Op2("updateop", "%=") ELSE Chr
         [] ch = 61 -> IF c1 = 61 THEN Op2("compareop", "==") ELSE Tok(src, "updateop", "=", p, p + 1)
         [] ch = 33 -> IF c1 = 61 THEN Op2("compareop", "!=") ELSE Chr
         [] ch = 62 -> IF c1 = 61 THEN Op2("compareop", ">=") ELSE Tok(src, "compareop", ">", p, p + 1)
         [] ch = 60 -> IF c1 = 61 THEN Op2("compareop", "<=") ELSE Tok(src, "compareop", "<", p, p + 1)
         [] ch = 64 -> IF IsIdentTail(c1) THEN Tok(src, "format", "", p, ScanIdent(src, p + 1)) ELSE Chr
         [] ch = 34 -> StrTok(src, ScanStr(src, p, p + 1, FALSE, p + 1))
         [] OTHER ->
              IF ch >= 128 THEN Tok(src, "c", "other", p, p + DecodeRune(src, p, Len(src)).n) ELSE Chr

----------------------------------------------------------------------------
(* The token sequence of a text, closed by an eof token.  It stops after    *)
(* the first lexical error token (the parser cannot continue past it), at   *)
(* the end of the text, and at a NUL byte outside a string literal (Lex     *)
(* returns 0 there, which the generated parser takes for its end marker;    *)
(* x = "nul" keeps the difference visible, it only shows in error texts).   *)

EofAt(off, x) == [t |-> "eof", x |-> x, s |-> <<>>, v |-> <<>>, b |-> off, e |-> off]

RECURSIVE LexAll(_, _, _, _, _)
LexAll(src, off, inStr, depths, acc) ==
  IF off >= Len(src) THEN Append(acc, EofAt(Len(src), ""))
  ELSE IF inStr THEN
    LET tk == StrTok(src, ScanStr(src, off, off, TRUE, off)) IN
    CASE tk.t = "strquery" -> LexAll(src, tk.e, FALSE, <<0>> \o depths, Append(acc, tk))
      [] tk.t = "string" -> LexAll(src, tk.e, TRUE, depths, Append(acc, tk))
      [] tk.t = "strend" -> LexAll(src, tk.e, FALSE, depths, Append(acc, tk))
      [] OTHER -> Append(acc, tk)
  ELSE
    LET p == NextByte(src, off) IN
    IF p < 0 THEN Append(acc, EofAt(0 - p - 1, ""))
    ELSE
      LET tk == LexNormal(src, p) IN
      IF tk.t = "eof" THEN Append(acc, EofAt(p + 1, "nul"))
      ELSE IF IsLexError(tk) THEN Append(acc, tk)
      ELSE IF tk.t = "strstart" THEN LexAll(src, tk.e, TRUE, depths, Append(acc, tk))
      ELSE IF tk.t = "c" /\ tk.x = "(" /\ depths # <<>> THEN
        LexAll(src, tk.e, FALSE, <<depths[1] + 1>> \o Tail(depths), Append(acc, tk))
      ELSE IF tk.t = "c" /\ tk.x = ")" /\ depths # <<>> THEN
        (IF depths[1] = 0 THEN LexAll(src, tk.e, TRUE, Tail(depths), Append(acc, tk))
         ELSE LexAll(src, tk.e, FALSE, <<depths[1] - 1>> \o Tail(depths), Append(acc, tk)))
      ELSE LexAll(src, tk.e, FALSE, depths, Append(acc, tk))

Lex(src) == LexAll(src, 0, FALSE, <<>>, <<>>)

\* what the parser can see of a token: everything but its position
TokKey(tk) == [t |-> tk.t, x |-> tk.x, s |-> tk.s, v |-> tk.v]
TokKeys(ts) == [i \in 1..Len(ts) |-> TokKey(ts[i])]
SameTokens(s1, s2) == TokKeys(Lex(s1)) = TokKeys(Lex(s2))
=============================================================================
