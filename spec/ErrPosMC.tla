------------------------------ MODULE ErrPosMC ------------------------------
(***************************************************************************)
(* C17, design level: the window machine of a non-seekable JSON input        *)
(* (cli/inputs.go jsonInputIter.Next + inputReader over encoding/json's      *)
(* Decoder), one action per code-level step, explored by TLC for EVERY read  *)
(* chunking, every small stream of documents and every error position, with  *)
(* scaled constants (THRESH, MINREAD, BUFSZ, PRE, CUT).                      *)
(*                                                                         *)
(*   ScanByte      Decoder.readValue: one scanner step on a buffered byte     *)
(*   Refill(n)     Decoder.refill: slide, grow, ONE Read of 1..request bytes  *)
(*                 through the tee reader (0 bytes = EOF)                    *)
(*   AtEOF         the delayed error handling of readValue                   *)
(*   NextCheck     jsonInputIter.Next after a value: the buffer reset        *)
(*   Report        jsonParseError: getContents (the tee buffer) + Error()    *)
(*                                                                         *)
(* Invariants (see the .cfg files):                                          *)
(*   ErrAgree      the scanner faults exactly at the byte corrupted by        *)
(*                 construction                                              *)
(*   LineBaseInv   the line base kept by Next() is LineBase(text, window start)*)
(*   Refines       the report equals ReportOfView(ViewPipe(..)) of ErrPos for *)
(*                 the read schedule taken (binds the function used to       *)
(*                 validate the real binary to this machine)                 *)
(*   PipeCorrect   the report satisfies Correct - the PROPERTY.  Violated by  *)
(*                 the pre-repair model (FIXRA = FALSE: D9, kept as a        *)
(*                 negative control of the model in ErrPosMC_d9.cfg) and by   *)
(*                 lone-CR streams (D13, FIXCR = FALSE = the code today);     *)
(*                 holds with FIXRA and FIXCR.  The code today is FIXRA =     *)
(*                 TRUE (commit 8c982d6), FIXCR = FALSE: ErrPosMC_code.cfg.   *)
(*   PipeNeverDiscarded / PipeCorrectOrD13   (code cfg) the offending byte is *)
(*                 always inside the window; a wrong report has exactly the  *)
(*                 D13 signature                                             *)
(*   PipeCorrectOrKnown  ... or the scenario is in a known class (D9: the    *)
(*                 offending position was discarded with the read-ahead;     *)
(*                 D13: a lone CR lies in the discarded prefix)              *)
(*   PipeSignature / FileSignature   outside the D9 class a wrong report has *)
(*                 exactly the observable signature of D13                   *)
(*   FileCorrect / FileCorrectOrKnown   same for getContents on a seekable   *)
(*                 input (a function of the text: checked in every initial   *)
(*                 state)                                                    *)
(* (ReportAtLemma on run-length encoded texts: ErrPosLemma.tla)              *)
(***************************************************************************)
EXTENDS ErrPos, TLC

CONSTANTS MAXDOCS    \* documents before the faulty one: 0..MAXDOCS

Flat(seqs) == LET RECURSIVE F(_) F(i) == IF i > Len(seqs) THEN <<>> ELSE seqs[i] \o F(i + 1) IN F(1)
AsText(bytes) == IF Len(bytes) = 0 THEN <<>> ELSE << [u |-> bytes, n |-> 1] >>

\* ---------------------------------------------------------------- the streams
Docs == { <<49>>, <<49, 49>>, <<91, 93>>, <<91, 10, 49, 93>> }          \* 1  11  []  [LF 1]
Seps == { <<10>>, <<13, 10>>, <<13>>, <<32>> }
\* faulty tails: [bytes, index of the offending byte (0 = the input ends inside a value)]
ErrDocs == { [b |-> <<120>>, x |-> 1], [b |-> <<91, 120>>, x |-> 2], [b |-> <<91, 10, 120>>, x |-> 3],
             [b |-> <<49, 120>>, x |-> 2], [b |-> <<91, 49>>, x |-> 0], [b |-> <<91, 13, 49>>, x |-> 0] }
Trails == { <<>>, <<10>>, <<10, 49, 10>>, <<13, 49>> }

Prefixes(k) == LET RECURSIVE P(_) P(i) == IF i = 0 THEN { <<>> } ELSE { p \o d \o s : p \in P(i - 1), d \in Docs, s \in Seps } IN P(k)
Streams == { [pre |-> p, ed |-> e, tr |-> t] : p \in UNION { Prefixes(k) : k \in 0..MAXDOCS }, e \in ErrDocs, t \in Trails }
BytesOf(s) == s.pre \o s.ed.b \o s.tr
ErrOf(s) == IF s.ed.x = 0 THEN [k |-> "eof"] ELSE [k |-> "syntax", p |-> Len(s.pre) + s.ed.x - 1]

\* ------------------------------------------------- a scanner for these streams
IsWs(c) == c \in {10, 13, 32}
IsDig(c) == c = 49
\* [ns |-> next state, r |-> "cont" | "end0" (value ended before this byte) | "end1" (value ends with this byte) | "err"]
ScanStep(st, c) ==
  CASE st = "begin" -> IF IsWs(c) THEN [ns |-> "begin", r |-> "cont"]
                       ELSE IF IsDig(c) THEN [ns |-> "num", r |-> "cont"]
                       ELSE IF c = 91 THEN [ns |-> "arr", r |-> "cont"]
                       ELSE [ns |-> "begin", r |-> "err"]
    [] st = "num" -> IF IsDig(c) THEN [ns |-> "num", r |-> "cont"] ELSE [ns |-> "begin", r |-> "end0"]
    [] st = "arr" -> IF IsWs(c) \/ IsDig(c) THEN [ns |-> "arr", r |-> "cont"]
                     ELSE IF c = 93 THEN [ns |-> "begin", r |-> "end1"]
                     ELSE [ns |-> "arr", r |-> "err"]

\* the values of a stream as runs of ErrPos (one value per run), by scanning the whole text
ValsOf(bytes) ==
  LET RECURSIVE V(_, _)
      V(i, st) ==
        IF i > Len(bytes) THEN (IF st = "num" THEN << [e |-> Len(bytes), w |-> 1, n |-> 1, d |-> 1] >> ELSE <<>>)
        ELSE LET r == ScanStep(st, bytes[i]) IN
             CASE r.r = "cont" -> V(i + 1, r.ns)
               [] r.r = "end0" -> << [e |-> i - 1, w |-> 1, n |-> 1, d |-> 1] >> \o V(i, "begin")
               [] r.r = "end1" -> << [e |-> i, w |-> 1, n |-> 1, d |-> 0] >> \o V(i + 1, "begin")
               [] r.r = "err" -> <<>>
  IN V(1, "begin")

\* ------------------------------------------------------------------ variables
VARIABLES S,       \* the stream (chosen initially)
          rp,      \* bytes read so far = end of the decoder buffer and of the tee buffer
          bs,      \* position of dec.buf[0]
          cap,     \* cap(dec.buf)
          scanp,   \* dec.scanp as an absolute position (end of the last value returned)
          sp,      \* position of the next byte the scanner steps on
          st,      \* scanner state
          eof,     \* the last Read returned io.EOF
          ws,      \* start of the tee buffer (window): jsonInputIter.offset
          iline,   \* jsonInputIter.line
          vend,    \* end of the value being returned
          pc,      \* "decode" | "returned" | "error" | "done" | "end"
          ek,      \* kind of the error raised: "syntax" | "eof"
          hist,    \* read sizes so far
          rep      \* the report printed
vars == <<S, rp, bs, cap, scanp, sp, st, eof, ws, iline, vend, pc, ek, hist, rep>>
View == <<S, rp, bs, cap, scanp, sp, st, eof, ws, iline, vend, pc, ek, rep>>

T == BytesOf(S)
N == Len(T)
NoRep == [line |-> -1, ex |-> <<>>, col |-> -1, cb |-> -1]

Init ==
  /\ S \in Streams
  /\ rp = 0 /\ bs = 0 /\ cap = 0 /\ scanp = 0 /\ sp = 0 /\ st = "begin" /\ eof = FALSE
  /\ ws = 0 /\ iline = 0 /\ vend = 0 /\ pc = "decode" /\ ek = "" /\ hist = <<>> /\ rep = NoRep

\* Decoder.readValue: for ; scanp < len(dec.buf); scanp++ { switch dec.scan.step(..) }
ScanByte ==
  /\ pc = "decode" /\ sp < rp
  /\ LET r == ScanStep(st, T[sp + 1]) IN
     CASE r.r = "cont" -> (sp' = sp + 1 /\ st' = r.ns /\ UNCHANGED <<pc, vend, ek>>)
       [] r.r = "end0" -> (pc' = "returned" /\ vend' = sp /\ st' = "begin" /\ UNCHANGED <<sp, ek>>)       \* scanEnd, delayed one byte
       [] r.r = "end1" -> (pc' = "returned" /\ vend' = sp + 1 /\ st' = "begin" /\ UNCHANGED <<sp, ek>>)   \* scanEndArray
       [] r.r = "err" -> (pc' = "error" /\ ek' = "syntax" /\ UNCHANGED <<sp, st, vend>>)                  \* SyntaxError{Offset: scan.bytes}
  /\ UNCHANGED <<S, rp, bs, cap, scanp, eof, ws, iline, hist, rep>>

\* Decoder.refill + one Read of the tee reader (every chunking: any 1..request bytes; 0 only at EOF)
DoRefill(n) ==
  /\ pc = "decode" /\ sp = rp /\ ~eof
  /\ LET bs1 == IF scanp > bs THEN scanp ELSE bs
         len == rp - bs1
         cap1 == IF cap - len < MINREAD THEN 2 * cap + MINREAD ELSE cap
     IN /\ (IF rp = N THEN n = 0 ELSE n >= 1 /\ n <= Min(cap1 - len, N - rp))
        /\ bs' = bs1 /\ cap' = cap1 /\ rp' = rp + n /\ eof' = (n = 0) /\ hist' = Append(hist, n)
  /\ UNCHANGED <<S, scanp, sp, st, ws, iline, vend, pc, ek, rep>>

\* readValue: "Did the last read have an error? Delayed until now to allow buffer scan."
AtEOF ==
  /\ pc = "decode" /\ sp = rp /\ eof
  /\ CASE st = "num" -> (pc' = "returned" /\ vend' = sp /\ st' = "begin" /\ ek' = ek)     \* scan.step(' ') = scanEnd
       [] st = "begin" -> (pc' = "end" /\ UNCHANGED <<vend, st, ek>>)                      \* only spaces left: io.EOF
       [] OTHER -> (pc' = "error" /\ ek' = "eof" /\ UNCHANGED <<vend, st>>)                \* io.ErrUnexpectedEOF
  /\ UNCHANGED <<S, rp, bs, cap, scanp, sp, eof, ws, iline, hist, rep>>

CountLFIn(a, b) == Cardinality({ i \in (a + 1)..b : T[i] = LF })
CountTermIn(a, b) == Cardinality({ i \in (a + 1)..b : T[i] = LF \/ (T[i] = CR /\ (i = N \/ T[i + 1] # LF)) })

\* Decode returns (dec.scanp += n); jsonInputIter.Next: if buf.Len() >= 16*1024 { offset, line += ...; buf.Reset() }
NextCheck ==
  /\ pc = "returned"
  /\ scanp' = vend /\ sp' = vend /\ pc' = "decode"
  /\ IF rp - ws >= THRESH
     THEN LET to == IF FIXRA THEN vend ELSE rp IN
          /\ ws' = to
          /\ iline' = iline + (IF FIXCR THEN CountTermIn(ws, to) ELSE CountLFIn(ws, to))
     ELSE UNCHANGED <<ws, iline>>
  /\ UNCHANGED <<S, rp, bs, cap, st, eof, vend, ek, hist, rep>>

\* jsonParseError{fname, getContents() = tee buffer, i.line, err}.Error()
Report ==
  /\ pc = "error"
  /\ LET contents == SubSeq(T, ws + 1, rp)
         off == IF ek = "syntax" THEN (sp + 1) - ws ELSE Len(contents) + 1
         r == GetLineByOffset(contents, off)
     IN rep' = [r EXCEPT !.line = r.line + iline]
  /\ pc' = "done"
  /\ UNCHANGED <<S, rp, bs, cap, scanp, sp, st, eof, ws, iline, vend, ek, hist>>

Next == ScanByte \/ (\E n \in 0..(N + 1) : DoRefill(n)) \/ AtEOF \/ NextCheck \/ Report
Spec == Init /\ [][Next]_vars

\* ----------------------------------------------------------------- invariants
Obs == [line |-> rep.line, ex |-> rep.ex, col |-> rep.col]
TT == AsText(T)
Bounds(h) == LET RECURSIVE B(_, _) B(i, acc) == IF i > Len(h) THEN <<>> ELSE <<acc + h[i]>> \o B(i + 1, acc + h[i]) IN B(1, 0)
CurView == [a |-> ws, b |-> rp, off |-> 0, lbase |-> iline]

ErrAgree == pc \in {"error", "done"} => (ek = ErrOf(S).k /\ (ek = "syntax" => sp = ErrOf(S).p))
NoCleanEnd == pc # "end"
LineBaseInv == iline = LineBase(TT, ws)
Refines == pc = "done" => rep = ReportOfView(TT, ViewPipe(TT, ValsOf(T), ErrOf(S), Bounds(hist)))
PipeCorrect == pc = "done" => Correct(TT, ErrOf(S), Obs)
PipeCorrectOrKnown == pc = "done" => (Correct(TT, ErrOf(S), Obs) \/ InDiscarded(CurView, ErrOf(S), N) \/ LoneCRSkipped(TT, CurView))
\* with the repair of D9 (FIXRA, commit 8c982d6) the offending position is always inside the window, and the
\* only way to be wrong is the D13 signature
PipeNeverDiscarded == pc = "done" => ~InDiscarded(CurView, ErrOf(S), N)
PipeCorrectOrD13 == pc = "done" => (Correct(TT, ErrOf(S), Obs) \/ D13Signature(TT, ErrOf(S), Obs))
\* outside the discarded-read-ahead class a wrong report has exactly the observable signature of D13
PipeSignature == pc = "done" => (Correct(TT, ErrOf(S), Obs) \/ InDiscarded(CurView, ErrOf(S), N) \/ D13Signature(TT, ErrOf(S), Obs))
\* (that the code really is wrong inside these classes is what the _d9 / _d13 configurations show: TLC must find the violation)

FileObs == LET r == ReportOfView(TT, ViewFile(TT, ErrOf(S))) IN [line |-> r.line, ex |-> r.ex, col |-> r.col]
FileCorrect == Correct(TT, ErrOf(S), FileObs)
FileCorrectOrKnown == FileCorrect \/ LoneCRSkipped(TT, ViewFile(TT, ErrOf(S)))
FileSignature == FileCorrect \/ D13Signature(TT, ErrOf(S), FileObs)
\* getContents literally (bytes re-read, LF counted chunk by chunk) = ViewFile
FileLiteral ==
  LET e == ErrOf(S)
      RECURSIVE L(_, _, _)
      L(pos, off, line) ==
        IF ~(off > (BUFSZ * 3) \div 4) THEN [pos |-> pos, off |-> off, line |-> line]
        ELSE LET n == Min(Min(BUFSZ, off - BUFSZ \div 4), N - pos) IN
             IF n <= 0 THEN [pos |-> pos, off |-> off, line |-> line]
             ELSE L(pos + n, off - n, line + (IF FIXCR THEN CountTermIn(pos, pos + n) ELSE CountLFIn(pos, pos + n)))
      r == L(0, IF e.k = "syntax" THEN e.p + 1 ELSE N, 0)
      contents == SubSeq(T, r.pos + 1, Min(r.pos + BUFSZ, N))
      g == GetLineByOffset(contents, IF e.k = "syntax" THEN r.off ELSE Len(contents) + 1)
  IN [g EXCEPT !.line = g.line + r.line]
FileRefines == FileLiteral = ReportOfView(TT, ViewFile(TT, ErrOf(S)))

=============================================================================
