SPECIFICATION Spec
CONSTANTS
  Profile = "operators"
  MaxLen = 4
INVARIANTS AllInvariants
CHECK_DEADLOCK FALSE
