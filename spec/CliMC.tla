------------------------------- MODULE CliMC -------------------------------
(***************************************************************************)
(* Model-checking configuration of Cli.tla: the bounded scenario universe.  *)
(*                                                                          *)
(* Two families, both explored exhaustively:                                *)
(*  A  every option set that parseFlags accepts (2^8 flag combinations x    *)
(*     --indent absent/0/3, plus the rejected --indent 10 / -1, the flag    *)
(*     errors and the query errors) x small input streams;                  *)
(*  B  the option sets that influence control (--raw-output0, -e, -n, -s)   *)
(*     x every input stream of <= MaxDocs documents (+ optional malformed    *)
(*     tail) x every run of <= MaxEv events.                                *)
(* A run is a sequence of values followed by at most one stopper (events    *)
(* after a stopper are never requested by the command).                     *)
(***************************************************************************)
EXTENDS Cli

CONSTANTS MaxDocs, MaxEv,       \* family B
          MaxDocsA, MaxEvA,     \* family A
          Rich,                 \* TRUE: the full event alphabet in family B; FALSE: a reduced one (for deeper bounds)
          Side                  \* TRUE: runs may also contain a debug message (a call of the command's `debug`)

\* values: falsy, truthy, a string that --raw-output0 rejects, a plain string, a nested container
VNull == Null
VOne == Num(1)
VNul == Str(<<97, 0>>)
VStr == Str(<<97, 34>>)                                  \* a"   (escaped unless raw)
VArr == Arr(<<Num(1), Obj(<< <<<<107>>, Arr(<<False>>)>> >>), Arr(<<>>)>>)     \* [1,{"k":[false]},[]]

ValsB == IF Rich THEN {VNull, VOne, VNul} ELSE {VNull, VOne}
ValsA == {VNull, VNul, VStr, VArr}
StoppersB == IF Rich THEN {ErrEv(Str(<<120>>)), HaltEv(Null, 0), HaltEv(Str(<<109>>), 5), HaltEv(VOne, 300), HaltEv(Null, -1)}
             ELSE {ErrEv(Str(<<120>>)), HaltEv(Null, 0)}
StoppersA == {ErrEv(Obj(<< <<<<97>>, Num(1)>> >>)), HaltEv(VArr, 1)}

RECURSIVE SeqsUpTo(_, _)
SeqsUpTo(S, n) == IF n = 0 THEN {<<>>} ELSE LET R == SeqsUpTo(S, n - 1) IN R \cup {Append(r, x) : r \in {q \in R : Len(q) = n - 1}, x \in S}

\* runs of at most n events: values (and debug messages), then possibly one stopper
Runs(V, T, n) == LET vs == SeqsUpTo({ValEv(v) : v \in V} \cup (IF Side THEN {DbgEv(VStr)} ELSE {}), n) IN
                 vs \cup {Append(r, t) : r \in {q \in vs : Len(q) < n}, t \in T}

Tok(name) == [k |-> "long", name |-> name]
Pos == [k |-> "pos"]
\* canonical command line of an option set: one long flag per option, then the query
ArgsOf(fl, ind) == [i \in 1..Len(fl) |-> Tok(fl[i])] \o ind \o <<Pos>>
AllFlags == <<"raw-output", "join-output", "raw-output0", "compact-output", "tab", "exit-status", "null-input", "slurp">>
FlagSeqs == {SelectSeq(AllFlags, LAMBDA x : x \in S) : S \in SUBSET BoolLong}
IndentChoices == {<<>>, <<Tok("indent"), [k |-> "int", n |-> 0]>>, <<Tok("indent"), [k |-> "int", n |-> 3]>>}

Streams(V, T, nd, ne) == [docs : SeqsUpTo(Runs(V, T, ne), nd), bad : BOOLEAN]

\* a scenario for an option set: only the runs the option set will use vary
ScenariosFor(args, V, T, nd, ne) ==
  LET o == ParseArgs(args).o IN
  IF o.n \/ o.s
  THEN {[args |-> args, query |-> "ok", docs |-> [i \in 1..k |-> <<>>], bad |-> b, onull |-> r, oslurp |-> r] :
          k \in {0, nd}, b \in BOOLEAN, r \in Runs(V, T, ne)}
  ELSE {[args |-> args, query |-> "ok", docs |-> st.docs, bad |-> st.bad, onull |-> <<>>, oslurp |-> <<>>] : st \in Streams(V, T, nd, ne)}

InitA == \E fl \in FlagSeqs, ind \in IndentChoices :
           \E s \in ScenariosFor(ArgsOf(fl, ind), ValsA, StoppersA, MaxDocsA, MaxEvA) : InitWith(s)

ControlFlags == {SelectSeq(<<"raw-output0", "exit-status", "null-input", "slurp">>, LAMBDA x : x \in S) :
                   S \in SUBSET {"raw-output0", "exit-status", "null-input", "slurp"}}
InitB == \E fl \in ControlFlags :
           \E s \in ScenariosFor(ArgsOf(fl, <<>>), ValsB, StoppersB, MaxDocs, MaxEv) : InitWith(s)

\* the front end: flag errors, rejected option values, query errors; with and without -e, with inputs present
OneDoc == <<<<ValEv(VOne)>>>>
FrontArgs == {
  <<Tok("nosuch"), Pos>>,                                             \* unknown long flag
  <<[k |-> "short", fl |-> <<"c", "x">>], Pos>>,                      \* unknown letter in a cluster
  <<[k |-> "longeq", name |-> "tab", int |-> FALSE, n |-> 0], Pos>>,  \* boolean flag with an argument
  <<[k |-> "longeq", name |-> "nosuch", int |-> TRUE, n |-> 1], Pos>>,
  <<Pos, Tok("indent")>>,                                             \* missing argument
  <<Tok("indent"), Pos>>,                                             \* the query is not a number
  <<[k |-> "longeq", name |-> "indent", int |-> FALSE, n |-> 0], Pos>>,
  <<Tok("indent"), [k |-> "int", n |-> 10], Pos>>,                    \* well-formed, unacceptable: status 5 (M7)
  <<Tok("indent"), [k |-> "int", n |-> -1], Pos>>,
  <<[k |-> "longeq", name |-> "indent", int |-> TRUE, n |-> 10], Pos, Tok("exit-status")>>,
  <<Tok("exit-status"), Tok("indent"), [k |-> "int", n |-> 9], Pos>>, \* accepted
  <<[k |-> "short", fl |-> <<"e", "c">>], Pos>>,
  <<[k |-> "short", fl |-> <<"r">>], [k |-> "dd"], Pos>>,
  <<Pos>> }
FamilyF == {[args |-> a, query |-> q, docs |-> OneDoc, bad |-> b, onull |-> <<>>, oslurp |-> <<>>] :
              a \in FrontArgs, q \in {"ok", "parse", "compile"}, b \in BOOLEAN}

InitF == \E s \in FamilyF : InitWith(s)

\* (no big UNION: TLC's union of enumerated sets is quadratic)
MCInit == InitA \/ InitB \/ InitF
MCSpec == MCInit /\ [][Next]_vars

\* the encoder in compact mode is the library's compact text (Text.tla JsonText)
ASSUME \A v \in ValsA \cup ValsB \cup {VOne, VArr} : Enc(v, -1, FALSE, 0) = JsonText(v).s
=============================================================================
