INIT Init
NEXT Next
INVARIANT MCOK
CHECK_DEADLOCK FALSE
