------------------------------ MODULE ConcRuns ------------------------------
(***************************************************************************)
(* C06 at design level: G goroutines run one compiled query at once.        *)
(* Objects: the constants embedded in the code ("const"), one input shared   *)
(* by all goroutines ("shared") or one input per goroutine ("in"), objects a *)
(* run allocates ("own"), and the per-Code regexp cache (an atomic map).     *)
(* A run is a sequence of native steps taken from Prog; each step READS some *)
(* objects and WRITES some objects, as func.go does:                         *)
(*   read      any builtin reading the input / a constant                    *)
(*   copyupd   update*: copies what it does not own, writes only "own"        *)
(*   sweep     deleteEmpty after delpaths: with SweepWritesShared (the code   *)
(*             before the repair) it stores into EVERY container it visits,   *)
(*             shared ones included; repaired, only into "own"                *)
(*   append    opappend / add: appends into an accumulator it owns            *)
(*   regex     cache lookup: load, on a miss compile and store (split in      *)
(*             three steps so that the benign double compile is explored)      *)
(* A step's access is split in two actions (Begin / End) so that TLC explores  *)
(* every overlap.  Invariants:                                                *)
(*   NoRace        no two goroutines are inside accesses to one object where   *)
(*                 at least one is a write (the race detector's condition)     *)
(*   NoForeignWrite  a goroutine writes only objects it owns (or the cache,    *)
(*                 which is atomic)                                            *)
(*   CacheSound    a cached regexp is the compiled form of its key             *)
(* and no deadlock (every goroutine terminates).                               *)
(***************************************************************************)
EXTENDS Integers, Sequences, FiniteSets, TLC

CONSTANTS G,                    \* number of goroutines
          Prog,                 \* sequence of step kinds every run performs
          SharedInput,          \* TRUE: one input object for all
          SweepWritesShared     \* TRUE: deleteEmpty as before the repair

Gor == 1..G
ProgDef == <<"read", "copyupd", "sweep", "regex", "append", "regex", "read">>
InputOf(g) == IF SharedInput THEN <<"shared", 0>> ELSE <<"in", g>>
Const == <<"const", 0>>
Own(g) == <<"own", g>>

\* objects a step of kind k reads / writes when goroutine g performs it
Reads(k, g) == CASE k = "read" -> {InputOf(g), Const}
                 [] k = "copyupd" -> {InputOf(g), Own(g)}
                 [] k = "sweep" -> {InputOf(g), Own(g)}
                 [] k = "append" -> {Const, Own(g)}
                 [] OTHER -> {}
Writes(k, g) == CASE k = "copyupd" -> {Own(g)}
                  [] k = "sweep" -> IF SweepWritesShared THEN {Own(g), InputOf(g)} ELSE {Own(g)}
                  [] k = "append" -> {Own(g)}
                  [] OTHER -> {}

VARIABLES pc,       \* pc[g]: index of the next step
          acc,      \* acc[g]: "idle" | "in" (inside the access of step pc[g]) | cache phases "loaded-miss", "compiled"
          cache,    \* the regexp cache: set of keys present (a present key maps to its compiled form by construction of Store)
          bad       \* cache soundness ghost: TRUE if a wrong value was ever stored
vars == <<pc, acc, cache, bad>>

Init == pc = [g \in Gor |-> 1] /\ acc = [g \in Gor |-> "idle"] /\ cache = {} /\ bad = FALSE
Kind(g) == Prog[pc[g]]
Running(g) == pc[g] <= Len(Prog)

Begin(g) == Running(g) /\ acc[g] = "idle" /\ Kind(g) # "regex" /\ acc' = [acc EXCEPT ![g] = "in"] /\ UNCHANGED <<pc, cache, bad>>
End(g) == Running(g) /\ acc[g] = "in" /\ acc' = [acc EXCEPT ![g] = "idle"] /\ pc' = [pc EXCEPT ![g] = pc[g] + 1] /\ UNCHANGED <<cache, bad>>
\* regexp cache: Load (hit -> done; miss -> compile), Compile, Store
Load(g) == Running(g) /\ acc[g] = "idle" /\ Kind(g) = "regex"
           /\ IF "re" \in cache THEN pc' = [pc EXCEPT ![g] = pc[g] + 1] /\ UNCHANGED <<acc, cache, bad>>
              ELSE acc' = [acc EXCEPT ![g] = "miss"] /\ UNCHANGED <<pc, cache, bad>>
Compile(g) == acc[g] = "miss" /\ acc' = [acc EXCEPT ![g] = "compiled"] /\ UNCHANGED <<pc, cache, bad>>
Store(g) == acc[g] = "compiled" /\ cache' = cache \cup {"re"} /\ acc' = [acc EXCEPT ![g] = "idle"]
            /\ pc' = [pc EXCEPT ![g] = pc[g] + 1] /\ UNCHANGED bad
Next == (\E g \in Gor : Begin(g) \/ End(g) \/ Load(g) \/ Compile(g) \/ Store(g)) \/ ((\A g \in Gor : pc[g] > Len(Prog)) /\ UNCHANGED vars)
Spec == Init /\ [][Next]_vars /\ \A g \in Gor : WF_vars(Begin(g) \/ End(g) \/ Load(g) \/ Compile(g) \/ Store(g))

Inside(g) == Running(g) /\ acc[g] = "in"
NoRace == \A g \in Gor, h \in Gor :
            (g # h /\ Inside(g) /\ Inside(h)) =>
              /\ Writes(Kind(g), g) \cap (Reads(Kind(h), h) \cup Writes(Kind(h), h)) = {}
NoForeignWrite == \A g \in Gor : Inside(g) => Writes(Kind(g), g) \subseteq {Own(g)}
CacheSound == ~bad
Done == \A g \in Gor : ~Running(g)
Termination == <>Done
=============================================================================
