CONSTANTS MaxMain = 2 MaxSub1 = 0 MaxSub2 = 0 Mode = "code"
INIT Init
NEXT Next
CHECK_DEADLOCK FALSE
INVARIANTS StepAgree
