---------------------------- MODULE ValidateEnc ----------------------------
(***************************************************************************)
(* C12 trace specification.  Every record is what the REAL code wrote for   *)
(* some values:                                                             *)
(*   lib   gojq.Marshal, tojson, tostring, @json, @text, interpolations,    *)
(*         tojson|fromjson (public API)                                     *)
(*   cli   stdout and exit status of the real binary under one flag /       *)
(*         GOJQ_COLORS configuration                                        *)
(*   dbg   stderr of `debug | stderr` (the command's third encoder use)     *)
(*   yaml  the text written with --yaml-output and what --yaml-input -c     *)
(*         read back from it (a law over the logged pair; the YAML codec is *)
(*         not modelled)                                                    *)
(* TLC computes what Encoder.tla prescribes, byte for byte, and ALSO reads  *)
(* the real bytes back with the specification's JSON reader.  One verdict   *)
(* line per record: the number of checks made and the list of failed ones.  *)
(***************************************************************************)
EXTENDS Encoder, TLC, Json, IOUtils

Trace == ndJsonDeserialize(IOEnv.VERIF_TRACE)

Has(r, f) == f \in DOMAIN r
Flag(r, f) == Has(r, f) /\ r[f] = TRUE
CfgOf(c) == MkCfg(Flag(c, "c"), Flag(c, "tab"), IF Has(c, "ind") THEN c.ind ELSE -1,
                  Flag(c, "C") /\ ~Flag(c, "M"),          \* `if -C or -M { noColor = -M }`; otherwise not a terminal: no colour
                  IF Has(c, "colors") THEN c.colors ELSE <<>>,
                  IF Has(c, "raw") THEN c.raw ELSE "")

\* Deeply nested values arrive as a flat preorder node list [t |-> "flat", toks |-> <<...>>] (the JSON reader of TLC
\* refuses documents nested deeper than 255): a container node carries its size n (and its keys), its children follow.
RECURSIVE BuildAt(_, _)
BuildAt(toks, i) ==      \* [v |-> the value rooted at node i, next |-> index after its subtree]
  LET t == toks[i] IN
  IF t.t = "arr" THEN
     LET RECURSIVE Kids(_, _, _)
         Kids(j, k, acc) == IF k > t.n THEN [v |-> VArr(acc), next |-> j]
                            ELSE LET c == BuildAt(toks, j) IN Kids(c.next, k + 1, Append(acc, c.v))
     IN Kids(i + 1, 1, <<>>)
  ELSE IF t.t = "obj" THEN
     LET RECURSIVE Kids(_, _, _)
         Kids(j, k, acc) == IF k > t.n THEN [v |-> VObj(acc), next |-> j]
                            ELSE LET c == BuildAt(toks, j) IN Kids(c.next, k + 1, Append(acc, <<t.keys[k], c.v>>))
     IN Kids(i + 1, 1, <<>>)
  ELSE [v |-> t, next |-> i + 1]
Val(x) == IF x.t = "flat" THEN BuildAt(x.toks, 1).v ELSE x

\* is the value one the specification speaks about
RECURSIVE InModel(_)
InModel(v) ==
  CASE v.t \in {"null", "bool", "str"} -> TRUE
    [] v.t = "int" -> Len(v.d) > 0
    [] v.t = "flt" -> v.k \in {"nan", "inf", "-inf"} \/ (v.k = "fin" /\ Len(v.d) > 0)
    [] v.t = "lit" -> Len(v.s) > 0 /\ NumberEnd(v.s, 1) = Len(v.s) + 1
    [] v.t = "arr" -> \A i \in 1..Len(v.a) : InModel(v.a[i])
    [] v.t = "obj" -> \A i \in 1..Len(v.o) : InModel(v.o[i][2])
    [] OTHER -> FALSE

Passed(k, i) == [k |-> k, i |-> i, ok |-> TRUE]
Failed(k, i, exp) == [k |-> k, i |-> i, ok |-> FALSE, exp |-> exp]
Check(k, i, cond, exp) == IF cond THEN Passed(k, i) ELSE Failed(k, i, exp)

\* The laws are ALSO evaluated on the real bytes (read back with the specification's reader) when the text is
\* at most LawLimit bytes: beyond that only byte equality with the specification is checked (TLC needs
\* ~10 microseconds per byte and pass; the laws themselves are model-checked in MCEncoder.tla).
LawLimit == 400

NoRawControl(s) == \A i \in 1..Len(s) : s[i] >= 32 /\ s[i] # 127

\* library ---------------------------------------------------------------------
\* unary minus (operator.go funcOpNegate): ints and doubles arithmetically, a kept literal by editing its text - in every case the text of the
\* result is the text of the operand with its leading "-" toggled (the integer 0 and NaN excepted)
NegNumBytes(v) ==
  IF v.t = "flt" /\ FloatIsNull(v) THEN NullBytes
  ELSE LET b == NumberBytes(v) IN
       IF v.t = "int" /\ b = <<48>> THEN b
       ELSE IF b[1] = 45 THEN Tail(b) ELSE <<45>> \o b
LibChecks(v, r, i) ==
  LET e == Enc(v)
      tj == ToJSONOf(e)
      ts == ToStringOf(v, e)
  IN
  << Check("marshal", i, r.marshal = [t |-> "bytes", b |-> e], e),
     Check("tojson", i, r.tojson = tj, e),
     Check("atjson", i, r.atjson = tj, e),
     Check("tostring", i, r.tostring = ts, ts.b),
     Check("attext", i, r.attext = ts, ts.b),
     Check("ijson", i, r.ijson = InterpOf(<<60>>, tj, <<62>>), e),
     Check("itext", i, r.itext = InterpOf(<<60>>, ts, <<62>>), ts.b),
     Check("roundtrip", i, Val(r.rt) = Norm(v), Enc(Norm(v))),                 \* tojson|fromjson
     Check("neg", i, "neg" \notin DOMAIN r \/ ~IsNumberV(v) \/ (v.t = "flt" /\ v.k = "nan") \/ r.neg = ToJSONOf(NegNumBytes(v)), IF IsNumberV(v) THEN NegNumBytes(v) ELSE <<>>),
     Check("negneg", i, "negneg" \notin DOMAIN r \/ ~IsNumberV(v) \/ r.negneg = ToJSONOf(IF v.t = "flt" /\ FloatIsNull(v) /\ v.k # "nan" THEN NumberBytes(v) ELSE e), e),
     \* the property stated on the real bytes, with the specification's reader
     Check("marshal.wellformed", i,
         /\ r.marshal.t = "bytes"                            \* not an error / panic record
         /\ LET m == r.marshal.b IN
            Len(m) > LawLimit \/
              (/\ ValidUtf8(m) /\ NoRawControl(m)
               /\ LET d == Dec(m) IN d.ok /\ SameValue(d.v, Norm(v))), <<>>) >>

\* command ---------------------------------------------------------------------
RECURSIVE AllSame(_, _, _)
AllSame(as, bs, i) == IF i > Len(as) THEN TRUE ELSE SameValue(as[i], bs[i]) /\ AllSame(as, bs, i + 1)

CliChecks(vs, r, j) ==
  LET cfg == CfgOf(r.cfg)
      exp == Stdout(vs, cfg)
      plain == IF cfg.color THEN StripSGR(r.out) ELSE r.out
  IN << Check("cli.status", j, r.status = exp.status, <<exp.status>>),
        Check("cli.bytes", j, r.out = exp.out, exp.out),
        \* property level: after removing SGR sequences the text is JSON that reads back equal, whatever the colours
        Check("cli.nosgr", j, exp.status # 0 \/ cfg.raw # "" \/ ~cfg.color \/ plain = Stdout(vs, [cfg EXCEPT !.color = FALSE]).out, <<>>),
        Check("cli.readback", j,
            exp.status # 0 \/ cfg.raw # "" \/ Len(r.out) > LawLimit \/
              (/\ ValidUtf8(r.out)
               /\ LET d == DecStream(plain) IN d.ok /\ Len(d.vs) = Len(vs) /\ AllSame(d.vs, [i \in 1..Len(vs) |-> Norm(vs[i])], 1)), <<>>),
        Check("cli.indent", j,
            exp.status # 0 \/ cfg.raw # "" \/ cfg.indent < 0 \/ Len(vs) = 0 \/ Len(r.out) > LawLimit \/
              (Len(plain) > 0 /\ plain[Len(plain)] = LF /\ IndentLaw(SubSeq(plain, 1, Len(plain) - 1), cfg)), <<>>) >>

\* debug / stderr ----------------------------------------------------------------
DbgChecks(vs, r, j) ==
  LET pal == PaletteOf(r.color, <<>>).pal
      exp == FlatF([i \in 1..Len(vs) |-> DebugBytes(vs[i], pal) \o StderrBytes(vs[i], pal)], Len(vs))
  IN << Check("dbg.bytes", j, r.status = 0 /\ r.err = exp /\ r.out = <<>>, exp) >>

\* YAML --------------------------------------------------------------------------
\* The law: what --yaml-input reads back from the text --yaml-output wrote is the same value (as JSON,
\* i.e. up to Norm).  Deviation switch BigAsString: the implementation hands *big.Int (integers beyond
\* int64) to the YAML encoder, which writes them as quoted strings; a failed record that is explained
\* exactly by this switch is tagged dev = "bigint-as-string" (finding F-C12-yaml-bigint-string).
Int64MaxDigits == <<9, 2, 2, 3, 3, 7, 2, 0, 3, 6, 8, 5, 4, 7, 7, 5, 8, 0, 7>>
Int64MinDigits == <<9, 2, 2, 3, 3, 7, 2, 0, 3, 6, 8, 5, 4, 7, 7, 5, 8, 0, 8>>
RECURSIVE DigitsGreater(_, _, _)
DigitsGreater(a, b, i) == IF i > Len(a) THEN FALSE ELSE IF a[i] # b[i] THEN a[i] > b[i] ELSE DigitsGreater(a, b, i + 1)
BeyondInt64(v) == Len(v.d) > 19 \/ (Len(v.d) = 19 /\ DigitsGreater(v.d, IF v.neg THEN Int64MinDigits ELSE Int64MaxDigits, 1))
RECURSIVE BigAsString(_)
BigAsString(v) ==
  CASE v.t = "int" -> IF BeyondInt64(v) THEN VStr(IntBytes(v)) ELSE v
    [] v.t = "arr" -> VArr([i \in 1..Len(v.a) |-> BigAsString(v.a[i])])
    [] v.t = "obj" -> VObj([i \in 1..Len(v.o) |-> <<v.o[i][1], BigAsString(v.o[i][2])>>])
    [] OTHER -> v

YamlChecks(vs, r) ==
  IF r.s1 # 0 THEN << Failed("yaml.write", 1, <<>>) >>
  ELSE IF r.s2 # 0 THEN
       \* a block scalar written with an explicit indentation indicator (|3, >8 ...) under --indent n, n not 1 or 2, is not read back: tagged
       (IF "ind" \in DOMAIN r /\ r.ind \notin {1, 2} /\ (\E i \in 1..(Len(r.text) - 1) : r.text[i] \in {124, 62} /\ r.text[i + 1] >= 48 /\ r.text[i + 1] <= 57)
        THEN << [k |-> "yaml.read", i |-> 1, ok |-> FALSE, exp |-> <<>>, dev |-> "indent-block-scalar"] >>
        \* a block scalar (header | or > at the end of a line) whose first content line starts, after the indentation, with a TAB
        ELSE IF \E j \in 2..(Len(r.text) - 1) : /\ r.text[j] = 10
                                                  /\ (\E i \in 1..(j - 1) : r.text[i] \in {124, 62} /\ \A m \in (i + 1)..(j - 1) : r.text[m] \in {43, 45} \/ (r.text[m] >= 48 /\ r.text[m] <= 57))
                                                  /\ (\E k \in (j + 1)..Len(r.text) : r.text[k] = 9 /\ \A m \in (j + 1)..(k - 1) : r.text[m] = 32)
        THEN << [k |-> "yaml.read", i |-> 1, ok |-> FALSE, exp |-> <<>>, dev |-> "tab-leading-block-scalar"] >>
        ELSE << Failed("yaml.read", 1, <<>>) >>)
  ELSE LET d == DecStream(r.back)
           sameLen == d.ok /\ Len(d.vs) = Len(vs)
           exp == FlatF([i \in 1..Len(vs) |-> Enc(Norm(vs[i])) \o <<LF>>], Len(vs))
       IN IF sameLen /\ AllSame(d.vs, [i \in 1..Len(vs) |-> Norm(vs[i])], 1) THEN << Passed("yaml.roundtrip", 1) >>
          ELSE IF sameLen /\ AllSame(d.vs, [i \in 1..Len(vs) |-> Norm(BigAsString(vs[i]))], 1)
               THEN << [k |-> "yaml.roundtrip", i |-> 1, ok |-> FALSE, exp |-> exp, dev |-> "bigint-as-string"] >>
               \* the same defect as above where the reader does not reject the text but strips the leading blanks the indicator miscounts
               ELSE IF "ind" \in DOMAIN r /\ r.ind \notin {1, 2} /\ (\E i \in 1..(Len(r.text) - 1) : r.text[i] \in {124, 62} /\ r.text[i + 1] >= 48 /\ r.text[i + 1] <= 57)
               THEN << [k |-> "yaml.roundtrip", i |-> 1, ok |-> FALSE, exp |-> exp, dev |-> "indent-block-scalar"] >>
               ELSE << Failed("yaml.roundtrip", 1, exp) >>

\* --yaml-input: whatever YAML document was read, what `gojq --yaml-input -c .` prints must be well-formed JSON.
\* (The YAML reader is not modelled: a rejected document is not judged.)  A text that is not JSON but would be
\* if YAML's wider number syntax were allowed is tagged dev = "yaml-number-literal".
YinChecks(r) ==
  IF r.status # 0 THEN << Passed("yamlin.rejected", 1) >>
  ELSE IF ValidUtf8(r.out) /\ DecStream(r.out).ok THEN << Passed("yamlin.wellformed", 1) >>
  ELSE IF ValidUtf8(r.out) /\ DecStreamYamlNums(r.out).ok
       THEN << [k |-> "yamlin.wellformed", i |-> 1, ok |-> FALSE, exp |-> <<>>, dev |-> "yaml-number-literal"] >>
       ELSE << Failed("yamlin.wellformed", 1, <<>>) >>

\* records -----------------------------------------------------------------------
RecChecks(rec) ==
  LET vs == [i \in 1..Len(rec.vs) |-> Val(rec.vs[i])] IN
  (IF Has(rec, "lib") THEN FlatF([i \in 1..Len(vs) |-> LibChecks(vs[i], rec.lib[i], i)], Len(vs)) ELSE <<>>)
    \o (IF Has(rec, "cli") THEN FlatF([j \in 1..Len(rec.cli) |-> CliChecks(vs, rec.cli[j], j)], Len(rec.cli)) ELSE <<>>)
    \o (IF Has(rec, "dbg") THEN FlatF([j \in 1..Len(rec.dbg) |-> DbgChecks(vs, rec.dbg[j], j)], Len(rec.dbg)) ELSE <<>>)
    \o (IF Has(rec, "yaml") THEN YamlChecks(vs, rec.yaml) ELSE <<>>)
    \o (IF Has(rec, "yin") THEN YinChecks(rec.yin) ELSE <<>>)

RecVerdict(rec) ==
  IF Has(rec, "harness_error") \/ ~Has(rec, "vs") THEN [id |-> rec.id, v |-> "tool", n |-> 0, fails |-> <<>>]
  ELSE IF \E i \in 1..Len(rec.vs) : ~InModel(Val(rec.vs[i])) THEN [id |-> rec.id, v |-> "oom", n |-> 0, fails |-> <<>>]
  ELSE LET cs == RecChecks(rec)
           fails == SelectSeq(cs, LAMBDA c : ~c.ok)
       IN [id |-> rec.id, v |-> IF Len(fails) = 0 THEN "agree" ELSE "mismatch", n |-> Len(cs), fails |-> fails]

\* The verdicts are computed and written while TLC computes the (single) initial state.
VARIABLE done
Init == done = ndJsonSerialize(IOEnv.VERIF_OUT, [i \in 1..Len(Trace) |-> RecVerdict(Trace[i])])
Next == UNCHANGED done
=============================================================================
