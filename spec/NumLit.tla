------------------------------- MODULE NumLit -------------------------------
(***************************************************************************)
(* C10, number literals and number printing.                                *)
(*                                                                         *)
(* Texts are sequences of code points.  The module defines                  *)
(*  - the JSON number grammar twice: as the scanner automaton (JStep) and   *)
(*    declaratively (JsonNumberDecl); NumLitMC.tla model-checks that they   *)
(*    accept the same texts;                                                *)
(*  - the number scanner of gojq's lexer (lexer.go: scanNumber with its     *)
(*    four states, validNumber) and the declarative grammar of what         *)
(*    `tonumber` accepts;                                                   *)
(*  - the exact decimal value of a literal (coefficient as an ExactInt      *)
(*    digit sequence and a power of ten);                                   *)
(*  - the printing laws of encoder.go / cli/encoder.go:                     *)
(*      json.Number           -> its text, verbatim (Untouched)             *)
(*      int, big.Int          -> canonical decimal digits                   *)
(*      float64               -> NaN: null; clamp to +-MaxFloat64; format   *)
(*                               'e' iff x # 0 /\ (x < 1e-6 \/ x >= 1e21),   *)
(*                               else 'f'; "e-0d" cleaned to "e-d".         *)
(*    The DIGITS of a float64 come from strconv (shortest round trip): not  *)
(*    modelled.  The spec bounds them instead: at most 17 significant       *)
(*    digits and |printed - literal| <= 2^-52 * |literal| (rounding to      *)
(*    nearest double + shortest round-trip text, each at most half an ulp). *)
(***************************************************************************)
EXTENDS ExactInt, FiniteSets

Minus == 45
PlusC == 43
Dot == 46
LowE == 101
UpE == 69
IsDigit(c) == c \in 48..57
IsExpMark(c) == c = LowE \/ c = UpE
DigitCps(d) == [i \in 1..Len(d) |-> 48 + d[i]]          \* digit values -> code points
DigitVals(t) == [i \in 1..Len(t) |-> t[i] - 48]

(***************************************************************************)
(* JSON number grammar (RFC 8259), the scanner automaton.                   *)
(***************************************************************************)
JStates == {"start", "minus", "zero", "int", "dot", "frac", "e", "esign", "exp", "bad"}
JAccepting == {"zero", "int", "frac", "exp"}
JStep(s, c) ==
  CASE s = "start" -> IF c = Minus THEN "minus" ELSE IF c = 48 THEN "zero" ELSE IF IsDigit(c) THEN "int" ELSE "bad"
    [] s = "minus" -> IF c = 48 THEN "zero" ELSE IF IsDigit(c) THEN "int" ELSE "bad"
    [] s = "zero"  -> IF c = Dot THEN "dot" ELSE IF IsExpMark(c) THEN "e" ELSE "bad"
    [] s = "int"   -> IF IsDigit(c) THEN "int" ELSE IF c = Dot THEN "dot" ELSE IF IsExpMark(c) THEN "e" ELSE "bad"
    [] s = "dot"   -> IF IsDigit(c) THEN "frac" ELSE "bad"
    [] s = "frac"  -> IF IsDigit(c) THEN "frac" ELSE IF IsExpMark(c) THEN "e" ELSE "bad"
    [] s = "e"     -> IF c = Minus \/ c = PlusC THEN "esign" ELSE IF IsDigit(c) THEN "exp" ELSE "bad"
    [] s = "esign" -> IF IsDigit(c) THEN "exp" ELSE "bad"
    [] s = "exp"   -> IF IsDigit(c) THEN "exp" ELSE "bad"
    [] OTHER       -> "bad"

RECURSIVE JRun(_, _, _)
JRun(t, i, s) == IF i > Len(t) THEN s ELSE JRun(t, i + 1, JStep(s, t[i]))
JFinal(t) == JRun(t, 1, "start")
IsJsonNumber(t) == JFinal(t) \in JAccepting

(***************************************************************************)
(* The same grammar, declaratively:                                         *)
(*   -? (0 | [1-9] D...) (. D+)? ([eE] [+-]? D+)?          D = [0-9]          *)
(***************************************************************************)
AllDigits(t) == \A i \in 1..Len(t) : IsDigit(t[i])
IntPartOK(t) == Len(t) >= 1 /\ AllDigits(t) /\ (t[1] = 48 => Len(t) = 1)
FracOK(t) == t = <<>> \/ (Len(t) >= 2 /\ t[1] = Dot /\ AllDigits(Tail(t)))
ExpOK(t) == t = <<>> \/ (/\ Len(t) >= 2 /\ IsExpMark(t[1])
                         /\ LET u == Tail(t) v == IF u[1] \in {Minus, PlusC} THEN Tail(u) ELSE u
                            IN Len(v) >= 1 /\ AllDigits(v))
JsonNumberDecl(t) ==
  LET b == IF Len(t) > 0 /\ t[1] = Minus THEN Tail(t) ELSE t IN
  \E i \in 1..Len(b) : \E j \in i..Len(b) :
     IntPartOK(SubSeq(b, 1, i)) /\ FracOK(SubSeq(b, i + 1, j)) /\ ExpOK(SubSeq(b, j + 1, Len(b)))

(***************************************************************************)
(* lexer.go: scanNumber.  The lexer state is (offset, state); the result is *)
(* the end offset of the token, or -1 (the code returns -offset: invalid).    *)
(* peek() returns 0 at the end of the source.  isIdent(ch, false) is true   *)
(* for letters and '_' (here: every letter of the alphabet we feed).        *)
(***************************************************************************)
IsIdentStart(c) == c \in 65..90 \/ c \in 97..122 \/ c = 95
Peek(t, off) == IF off < Len(t) THEN t[off + 1] ELSE 0       \* off = number of code points consumed

RECURSIVE ScanNumber(_, _, _)
ScanNumber(t, off, st) ==
  LET ch == Peek(t, off) IN
  IF st \in {"lead", "float"} THEN
       IF IsDigit(ch) THEN ScanNumber(t, off + 1, st)
       ELSE IF ch = Dot THEN (IF st # "lead" THEN -1 ELSE ScanNumber(t, off + 1, "float"))
       ELSE IF IsExpMark(ch) THEN
            LET o2 == IF Peek(t, off + 1) \in {Minus, PlusC} THEN off + 2 ELSE off + 1
            IN ScanNumber(t, o2, "explead")
       ELSE IF IsIdentStart(ch) THEN -1 ELSE off
  ELSE \* "explead", "exp"
       IF ~IsDigit(ch) THEN (IF IsIdentStart(ch) THEN -1 ELSE IF st = "explead" THEN -1 ELSE off)
       ELSE ScanNumber(t, off + 1, "exp")

\* lexer.go: validNumber (used by tonumber)
ValidNumber(t) ==
  LET o1 == IF Peek(t, 0) \in {Minus, PlusC} THEN 1 ELSE 0
      dot == Peek(t, o1) = Dot
      o2 == IF dot THEN o1 + 1 ELSE o1
  IN IsDigit(Peek(t, o2)) /\ ScanNumber(t, o2, IF dot THEN "float" ELSE "lead") = Len(t)

\* lexer.go: Lex, cases isNumber(ch) and '.': is the WHOLE query text one number token ?
\* (first digit already consumed -> scanNumber(numberStateLead); '.' followed by a digit ->
\* scanNumber(numberStateFloat) with the digit not yet consumed)
QueryNumber(t) ==
  /\ Len(t) >= 1
  /\ \/ IsDigit(t[1]) /\ ScanNumber(t, 1, "lead") = Len(t)
     \/ t[1] = Dot /\ IsDigit(Peek(t, 1)) /\ ScanNumber(t, 1, "float") = Len(t)
\* [+-]? D+ : the texts tonumber / a query literal turn into an exact integer; its canonical text
SignedIntegerShape(t) ==
  LET b == IF Len(t) > 0 /\ t[1] \in {Minus, PlusC} THEN Tail(t) ELSE t IN Len(b) >= 1 /\ AllDigits(b)
CanonSigned(t) ==
  LET neg == t[1] = Minus
      b == IF t[1] \in {Minus, PlusC} THEN Tail(t) ELSE t
      d == StripLead(DigitVals(b))
  IN IF Len(d) = 0 THEN <<48>> ELSE (IF neg THEN <<Minus>> ELSE <<>>) \o DigitCps(d)

\* what tonumber accepts, declaratively: [+-]? ( D+ (. D...)? | . D+ ) ([eE][+-]?D+)?
ToNumberDecl(t) ==
  LET b == IF Len(t) > 0 /\ t[1] \in {Minus, PlusC} THEN Tail(t) ELSE t IN
  \E j \in 1..Len(b) :
     /\ ExpOK(SubSeq(b, j + 1, Len(b)))
     /\ LET m == SubSeq(b, 1, j) IN
        \/ Len(m) >= 1 /\ AllDigits(m)
        \/ \E k \in 1..Len(m) : /\ m[k] = Dot
                                /\ AllDigits(SubSeq(m, 1, k - 1)) /\ AllDigits(SubSeq(m, k + 1, Len(m)))
                                /\ Len(m) >= 2

\* a whole-text number token of a query, declaratively: the grammar of tonumber without a sign
QueryNumberDecl(t) == Len(t) >= 1 /\ t[1] \notin {Minus, PlusC} /\ ToNumberDecl(t)

(***************************************************************************)
(* Exact decimal value of a JSON number literal.                            *)
(***************************************************************************)
RECURSIVE FirstIdx(_, _, _)
FirstIdx(t, i, S) == IF i > Len(t) THEN Len(t) + 1 ELSE IF t[i] \in S THEN i ELSE FirstIdx(t, i + 1, S)

Parse(t) ==
  LET neg == Len(t) > 0 /\ t[1] = Minus
      b == IF neg THEN Tail(t) ELSE t
      ep == FirstIdx(b, 1, {LowE, UpE})
      mant == SubSeq(b, 1, ep - 1)
      ex == SubSeq(b, ep + 1, Len(b))
      dp == FirstIdx(mant, 1, {Dot})
      ip == SubSeq(mant, 1, dp - 1)
      fp == SubSeq(mant, dp + 1, Len(mant))
      eneg == Len(ex) > 0 /\ ex[1] = Minus
      ed == IF Len(ex) > 0 /\ ex[1] \in {Minus, PlusC} THEN Tail(ex) ELSE ex
  IN [neg |-> neg, ip |-> DigitVals(ip), fp |-> DigitVals(fp),
      hasdot |-> dp <= Len(mant), hasexp |-> ep <= Len(b),
      eneg |-> eneg, ed |-> StripLead(DigitVals(ed))]

IntegerShape(t) == LET p == Parse(t) IN ~p.hasdot /\ ~p.hasexp
ExpSmall(p) == Len(p.ed) <= 6
ExpVal(p) == LET m == MagToInt(p.ed, 1, 0) IN IF p.eneg THEN 0 - m ELSE m        \* requires ExpSmall
Coef(p) == StripLead(p.ip \o p.fp)                    \* |value| = Coef * 10^(ExpVal - Len(fp))
Exp10(p) == ExpVal(p) - Len(p.fp)
\* decimal order of magnitude: |value| in [10^(Mag-1), 10^Mag)   (Coef # 0)
Mag(p) == Len(Coef(p)) + Exp10(p)

\* canonical text of the integer value of an integer-shaped literal ("-0" -> "0")
CanonInt(t) == LET p == Parse(t) d == StripLead(p.ip) IN
               IF Len(d) = 0 THEN <<48>> ELSE (IF p.neg THEN <<Minus>> ELSE <<>>) \o DigitCps(d)

(***************************************************************************)
(* Printing laws.                                                           *)
(***************************************************************************)
NullText == <<110, 117, 108, 108>>
\* math.MaxFloat64 as printed in format 'e': 1.7976931348623157e+308
MaxFloatText == <<49, 46, 55, 57, 55, 54, 57, 51, 49, 51, 52, 56, 54, 50, 51, 49, 53, 55, 101, 43, 51, 48, 56>>

\* funcOpNegate / funcAbs on a json.Number work on the text
NegText(t) == IF Len(t) > 0 /\ t[1] = Minus THEN Tail(t) ELSE <<Minus>> \o t
AbsText(t) == IF Len(t) > 0 /\ t[1] = Minus THEN Tail(t) ELSE t

Zeros(n) == [i \in 1..n |-> 0]
Nines(d, n) == Len(d) >= n /\ \A i \in 1..n : d[i] = 9
Pow2_52 == <<4, 5, 0, 3, 5, 9, 9, 6, 2, 7, 3, 7, 0, 4, 9, 6>>

\* shape of strconv's format 'f' / 'e' (after gojq's clean-up of "e-0d")
ShapeF(o) == JFinal(o) \in {"zero", "int", "frac"}
ShapeE(o) ==
  /\ JFinal(o) = "exp"
  /\ LET b == IF o[1] = Minus THEN Tail(o) ELSE o
         ep == FirstIdx(b, 1, {LowE})
         mant == SubSeq(b, 1, ep - 1)
         ex == SubSeq(b, ep + 1, Len(b))
     IN /\ ep <= Len(b)
        /\ (Len(mant) = 1 \/ (Len(mant) >= 3 /\ mant[2] = Dot))
        /\ \/ ex[1] = PlusC /\ Len(ex) >= 3
           \/ ex[1] = Minus /\ (Len(ex) = 2 \/ (Len(ex) >= 3 /\ ex[2] # 48))

\* |o - l| * 2^52 <= |l| for the parsed decimals o, l (same sign checked separately)
Close(po, pl) ==
  LET m == IF Exp10(po) < Exp10(pl) THEN Exp10(po) ELSE Exp10(pl)
      A == StripLead(Coef(po) \o Zeros(Exp10(po) - m))
      B == StripLead(Coef(pl) \o Zeros(Exp10(pl) - m))
      diff == IF MagCmp(A, B) >= 0 THEN MagSub(A, B) ELSE MagSub(B, A)
  IN MagCmp(MagMul(diff, Pow2_52), B) <= 0

SigDigits(po) == LET c == Coef(po) r == StripLead([i \in 1..Len(c) |-> c[Len(c) + 1 - i]]) IN Len(r)

(***************************************************************************)
(* What a float64 computed from the literal l may print as (o).             *)
(* Result: "agree" | "mismatch" | "oom".                                    *)
(*   value 0                         -> "0" or "-0" (sign of zero: oom-free, *)
(*                                      both accepted)                      *)
(*   |v| >= 10^310                   -> saturated to +-MaxFloat64            *)
(*   |v| <  10^-340                  -> underflows to zero                   *)
(*   10^-300 <= |v| < 10^307         -> format by magnitude, closeness       *)
(*   anything near a rounding-sensitive threshold -> oom                     *)
(***************************************************************************)
FloatPrint(l, o) ==
  LET pl == Parse(l) IN
  IF ~ExpSmall(pl) THEN
       \* |exponent| >= 10^6 with at most a few dozen digits: zero, underflow or overflow
       IF Len(Coef(pl)) = 0 THEN (IF o \in {<<48>>, <<Minus, 48>>} THEN "agree" ELSE "mismatch")
       ELSE IF pl.eneg THEN (IF o \in {<<48>>, <<Minus, 48>>} THEN "agree" ELSE "mismatch")
       ELSE (IF o = (IF pl.neg THEN <<Minus>> ELSE <<>>) \o MaxFloatText THEN "agree" ELSE "mismatch")
  ELSE IF Len(Coef(pl)) = 0 THEN (IF o \in {<<48>>, <<Minus, 48>>} THEN "agree" ELSE "mismatch")
  ELSE LET mag == Mag(pl) sign == IF pl.neg THEN <<Minus>> ELSE <<>> IN
       IF mag >= 311 THEN (IF o = sign \o MaxFloatText THEN "agree" ELSE "mismatch")
       ELSE IF mag <= -340 THEN (IF o \in {<<48>>, <<Minus, 48>>} THEN "agree" ELSE "mismatch")
       ELSE IF mag >= 308 \/ mag <= -300 THEN "oom"
       ELSE IF Nines(Coef(pl), 15) /\ mag \in {-6, 21} THEN "oom"
       ELSE IF ~IsJsonNumber(o) THEN "mismatch"
       ELSE LET po == Parse(o)
                fmtE == mag <= -6 \/ mag >= 22
            IN IF /\ (IF fmtE THEN ShapeE(o) ELSE ShapeF(o))
                  /\ po.neg = pl.neg
                  /\ ExpSmall(po)
                  /\ SigDigits(po) <= 17
                  /\ Close(po, pl)
               THEN "agree" ELSE "mismatch"
=============================================================================
