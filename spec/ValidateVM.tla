----------------------------- MODULE ValidateVM -----------------------------
(***************************************************************************)
(* Trace specification of the interpreter.  Every record of the batch is    *)
(* the REAL compiler's bytecode for a query (hook VerifDump), an input, the  *)
(* step trace recorded from the REAL interpreter (hook verifStep: pc,        *)
(* backtrack flag, #forks, logical depths of the three stacks, register      *)
(* offset, expdepth - before every instruction) and what Next() returned.    *)
(* TLC steps VM.tla from InitVM; each TLC state is one VM state.  Checked in  *)
(* every state: the recorded step equals the model's (TraceOK), no action     *)
(* precondition fails (NoPanic: the Go code would panic), saved fork indices  *)
(* stay within the stacks and below the limits.  At the end: the values and   *)
(* errors Next() returned equal the model's, and (records with an AST, no     *)
(* cancellation) equal the denotational semantics JqSem.Eval: refinement.     *)
(* A record ends with a verdict written to its own file                      *)
(*   ok | drift (trace rejected at step n) | panic | out-mismatch | ref-mismatch | oom | cut *)
(***************************************************************************)
EXTENDS VM, JqSem, CodeWF

Batch == ndJsonDeserialize(IOEnv.VERIF_TRACE)
MaxSteps == atoi(IOEnv.VERIF_MAXSTEPS)

VARIABLES vm, k, n, fin, lp
vars == <<vm, k, n, fin, lp>>

IsExec(s) == s.status = "run" /\ s.pc <= Len(s.code)
Rec == Batch[k]
Steps == IF "steps" \in DOMAIN Rec THEN Rec.steps ELSE <<>>
HasTrace == "steps" \in DOMAIN Rec

\* the recorded step (before instruction n+1) equals the model state
TraceOK ==
  IsExec(vm) /\ HasTrace /\ n < Len(Steps) =>
    LET st == Steps[n + 1] IN
    /\ st.pc = vm.pc - 1
    /\ st.bt = vm.bt
    /\ st.nf = Len(vm.forks)
    /\ st.sd = PSDepth(vm.stack)
    /\ st.scd = PSDepth(vm.scopes)
    /\ st.pd = PSDepth(vm.paths)
    /\ st.off = vm.offset
    /\ st.exp = vm.expdepth
    /\ st.sp = Len(vm.stack.data) /\ st.scp = Len(vm.scopes.data) /\ st.pp = Len(vm.paths.data)

\* compare what Next() returned: model out entries vs recorded [v |-> V] / [e |-> err] / [ctx |-> TRUE]
RECURSIVE MatchV(_, _)
MatchV(s, r) ==
  IF s.t = "opaque" THEN r.t \in {"str", "opaque"}
  ELSE IF s.t # r.t THEN FALSE
  ELSE CASE s.t = "arr" -> Len(s.a) = Len(r.a) /\ \A i \in 1..Len(s.a) : MatchV(s.a[i], r.a[i])
         [] s.t = "obj" -> Len(s.o) = Len(r.o) /\ \A i \in 1..Len(s.o) : s.o[i][1] = r.o[i][1] /\ MatchV(s.o[i][2], r.o[i][2])
         [] OTHER -> s = r
MatchOut(m, r) ==
  CASE m.t = "ctxerr" -> "ctx" \in DOMAIN r
    [] m.t = "error" -> "e" \in DOMAIN r /\
         (CASE m.e.k = "err" -> r.e.k = "err" /\ (IF r.e.v.t = "opaque" THEN m.e.v.t = "opaque" ELSE MatchV(m.e.v, r.e.v))
            [] m.e.k = "halt" -> r.e.k = "halt" /\ MatchV(m.e.v, r.e.v) /\ m.e.c = r.e.c
            [] m.e.k = "brk" -> r.e.k = "err"
            [] OTHER -> FALSE)
    [] OTHER -> "v" \in DOMAIN r /\ MatchV(m, r.v)
OutPrefixOK(out, real) == Len(out) <= Len(real) /\ \A i \in 1..Len(out) : MatchOut(out[i], real[i])

CutAtErr(o) == LET RECURSIVE F(_)
                   F(i) == IF i > Len(o) THEN <<>> ELSE IF o[i].t \in {"error", "ctxerr"} THEN <<>> ELSE <<o[i]>> \o F(i + 1)
               IN F(1)
FirstErr(o) == LET RECURSIVE F(_)
                   F(i) == IF i > Len(o) THEN NoErr ELSE IF o[i].t = "error" THEN o[i].e ELSE F(i + 1)
               IN F(1)
\* refinement: the VM's emitted sequence (up to the first error) is the denotational one
RefOK ==
  IF "ast" \notin DOMAIN Rec \/ Rec.cancel # 0 THEN "skip"
  ELSE LET r == Eval(Rec.ast, Rec.input, <<>>, <<>>)
           o == CutAtErr(vm.out)
           e == FirstErr(vm.out)
       IN IF r.e.k = "oom" THEN "oom"
          ELSE IF Len(o) = Len(r.o) /\ (\A i \in 1..Len(o) : o[i] = r.o[i]) /\ e.k = r.e.k THEN "ok" ELSE "mismatch"

\* C20: footprint at the successive visits of the loop head recorded with the case (Rec.head = [pc, bt])
HasHead == "head" \in DOMAIN Rec
AtHead(s) == HasHead /\ IsExec(s) /\ s.pc - 1 = Rec.head.pc /\ s.bt = Rec.head.bt
FPKeys == {"forks", "stack_log", "stack_phys", "scope_log", "scope_phys", "path_log", "offset"}
FPMax(a, b) == [x \in FPKeys |-> IF a[x] > b[x] THEN a[x] ELSE b[x]]
FPLeq(a, b) == \A x \in FPKeys : a[x] <= b[x]
FPZero == [x \in FPKeys |-> 0]
\* warm-up: the component-wise maximum over the first 6 visits; flat = no later visit exceeds it
LpInit == [cnt |-> 0, last |-> FPZero, flat |-> TRUE, first |-> FPZero]
LpNext(s) == IF ~AtHead(s) THEN lp
             ELSE [cnt |-> lp.cnt + 1, last |-> FP(s),
                   flat |-> lp.flat /\ (lp.cnt < 6 \/ FPLeq(FP(s), lp.first)),
                   first |-> IF lp.cnt < 6 THEN FPMax(lp.first, FP(s)) ELSE lp.first]

Verdict(v, extra) == [id |-> Rec.id, v |-> v, steps |-> vm.steps, n |-> n, nout |-> Len(vm.out), wf |-> CodeWF(Rec.code),
                      visits |-> lp.cnt, fpflat |-> lp.flat, fpfirst |-> lp.first, fplast |-> lp.last] @@ extra
Write(v) == ndJsonSerialize(IOEnv.VERIF_OUT \o "." \o ToString(k), <<v>>)

Final ==
  IF vm.status = "panic" THEN Verdict("panic", [why |-> vm.fail, pc |-> vm.pc - 1])
  ELSE IF vm.status = "oom" THEN Verdict("oom", [pc |-> vm.pc - 1])
  ELSE IF ~TraceOK THEN Verdict("drift", [pc |-> vm.pc - 1, bt |-> vm.bt, nf |-> Len(vm.forks), sd |-> PSDepth(vm.stack),
                                          scd |-> PSDepth(vm.scopes), pd |-> PSDepth(vm.paths), off |-> vm.offset, exp |-> vm.expdepth])
  ELSE IF ~OutPrefixOK(vm.out, Rec.next) THEN Verdict("out-mismatch", [out |-> vm.out])
  ELSE IF vm.status = "done" THEN
       (IF HasTrace /\ ~Rec.cut /\ n # Len(Steps) THEN Verdict("drift-len", [expected |-> Len(Steps)])
        ELSE IF ~Rec.cut /\ Len(vm.out) # Len(Rec.next) THEN Verdict("out-mismatch", [out |-> vm.out])
        ELSE LET rf == RefOK IN Verdict(IF rf = "mismatch" THEN "ref-mismatch" ELSE "ok", [ref |-> rf]))
  ELSE Verdict("cut", [why |-> "budget"])

Stop == \/ ~Running(vm) \/ vm.steps >= MaxSteps \/ ~TraceOK
        \/ (HasTrace /\ Rec.cut /\ IsExec(vm) /\ n >= Len(Steps))     \* the recording was cut here
        \/ ~OutPrefixOK(vm.out, Rec.next)

Init == /\ k \in 1..Len(Batch)
        /\ vm = InitVM(Batch[k].code, Batch[k].input, <<>>, Batch[k].cancel)
        /\ n = 0 /\ fin = FALSE /\ lp = LpInit
Next == /\ ~fin
        /\ IF Stop THEN fin' = Write(Final) /\ UNCHANGED <<vm, k, n, lp>>
           ELSE /\ vm' = Step(vm) /\ n' = (IF IsExec(vm) THEN n + 1 ELSE n) /\ lp' = LpNext(vm) /\ UNCHANGED <<k, fin>>
Spec == Init /\ [][Next]_vars

\* design-level invariants, evaluated in EVERY state TLC visits (they hold on every record of a
\* run on the unchanged tree; a violation is reported by TLC with the state):
StackInv == ForksWithinStacks(vm) /\ StacksWF(vm)

\* the cancellation / iterator protocol (C07) as invariants of the machine:
\*   Prompt    the poll that sees the cancelled context ends the Next in progress with the context error
\*   Terminal  the context error is the last thing the iterator ever returns, and it leaves no fork behind
\*   ExhaustedForever  once Next has returned false nothing changes any more (the machine is at a fixpoint)
Prompt == vm.cancel > 0 /\ vm.steps >= vm.cancel => Len(vm.out) > 0 /\ vm.out[Len(vm.out)].t = "ctxerr"
Terminal == /\ \A i \in 1..(Len(vm.out) - 1) : vm.out[i].t # "ctxerr"
            /\ (Len(vm.out) > 0 /\ vm.out[Len(vm.out)].t = "ctxerr" => Len(vm.forks) = 0 /\ vm.pc = Len(vm.code) + 1)
ExhaustedForever == vm.status = "done" => Step(vm) = vm /\ Len(vm.forks) = 0
ProtocolInv == Prompt /\ Terminal /\ ExhaustedForever
=============================================================================
