--------------------------- MODULE ValidateArith ---------------------------
(***************************************************************************)
(* C10, trace specification for integer operator records.                   *)
(*                                                                         *)
(* IntFast.tla is instantiated with ExactInt.tla's digit sequences as the   *)
(* carrier and W = 64 (Go's int on the platforms gojq's fast paths are      *)
(* written for): the SAME text that IntFastMC.tla model-checks for W = 4,   *)
(* 6, 8 predicts here what the real gojq returns for recorded operands of   *)
(* any magnitude.  Each record is one (operator, a, b) with the results the *)
(* real code gave for several Go representations of the operands and query  *)
(* shapes (run.mode: "var" $a op $b, "input" .[0] op .[1], "lit" literals   *)
(* in the query text, "addfn" [$a,$b]|add); the verdict per run compares                                                 *)
(*   - the real result with the exact mathematical result (ExactBinary ...) *)
(*     -> agree / mismatch   (this is the property);                        *)
(*   - what the library encoder printed for it with the value it had        *)
(*     (Print(v) = digits of v) -> part of agree;                           *)
(*   - the dynamic Go type of the real result with the representation the   *)
(*     transcribed fast path / fallback predicts -> rep (informational:     *)
(*     binds the dispatch of the model to the code, never a violation);     *)
(*   - the model with the exact result (specerr if they differ: then the    *)
(*     transcription itself is wrong on that pair).                         *)
(***************************************************************************)
EXTENDS ExactInt, TLC, Json, IOUtils

ZOne == ZFromInt(1)
ZMinusOne == ZFromInt(-1)
Z2p63 == ZPow2(63)
Z2p64 == ZAdd(Z2p63, Z2p63)
ZMin64 == ZNeg(Z2p63)
ZMax64 == ZSub(Z2p63, ZOne)
ZLess(a, b) == ZCmp(a, b) < 0
ZTQuo(a, b) == ZDivMod(a, b).q
ZTRem(a, b) == ZDivMod(a, b).r
\* reduction modulo 2^64 into [-2^63, 2^63 - 1]
ZWrap64(x) ==
  IF ZCmp(x, ZMin64) >= 0 /\ ZCmp(x, ZMax64) <= 0 THEN x
  ELSE LET r == ZDivMod(ZSub(x, ZMin64), Z2p64).r
           m == IF r.neg THEN ZAdd(r, Z2p64) ELSE r
       IN ZAdd(m, ZMin64)

INSTANCE IntFast WITH MinInt <- ZMin64, MaxInt <- ZMax64, Zero <- ZZero, MinusOne <- ZMinusOne,
                      Plus <- ZAdd, Minus <- ZSub, Times <- ZMul,
                      TQuo <- ZTQuo, TRem <- ZTRem, Less <- ZLess, WrapW <- ZWrap64

Trace == ndJsonDeserialize(IOEnv.VERIF_TRACE)

ZOf(r) == MkZ(r.neg, r.d)      \* {neg, d} of a record -> canonical Z

Has(r, f) == f \in DOMAIN r

(***************************************************************************)
(* The operand as the real code received it.                                *)
(*   "int" | "big" | "jnum" | "jnegzero"  given by the harness              *)
(*   "lit"  a literal of the query text: lexer.go scans the digits,         *)
(*          compiler.go: toNumber = parseNumber; a negative operand is      *)
(*          written (-digits): query.go Unary.toNumber folds                *)
(*          funcOpNegate(toNumber(digits)).                                 *)
(***************************************************************************)
Operand(z, rep) ==
  CASE rep = "int"  -> GoInt(z)
    [] rep = "big"  -> GoBig(z)
    [] rep = "jnum" -> JNumOf(z)
    [] rep = "jnegzero" -> JNum(TRUE, ZZero)
    [] rep = "lit"  -> IF z.neg THEN OpNegate(ParseNumber(JNumOf(ZNeg(z)))) ELSE ParseNumber(JNumOf(z))

\* `[$a, $b] | add` = reduce: null + a (binopTypeSwitch parses a json.Number, the fallback
\* returns the parsed operand), then + b.
AddFn(l, r) == OpAdd(Norm(l), r)

Model(rec, run) ==
  LET a == Operand(ZOf(rec.a), run.la) IN
  CASE rec.kind = "un"  -> Unary(rec.op, a)
    [] rec.kind = "bin" -> LET b == Operand(ZOf(rec.b), run.lb) IN
                           IF run.mode = "addfn" THEN AddFn(a, b) ELSE Binary(rec.op, a, b)
    [] rec.kind = "rel" -> [rep |-> "bool", b |-> Relation(rec.op, a, Operand(ZOf(rec.b), run.lb))]

Exact(rec) ==
  CASE rec.kind = "un"  -> ExactUnary(rec.op, ZOf(rec.a))
    [] rec.kind = "bin" -> ExactBinary(rec.op, ZOf(rec.a), ZOf(rec.b))
    [] rec.kind = "rel" -> [k |-> "bool", b |-> ExactRelation(rec.op, ZOf(rec.a), ZOf(rec.b))]

ModelConsistent(m, e) ==
  IF e.k = "bool" THEN m.rep = "bool" /\ m.b = e.b ELSE Realises(m, e) /\ WellFormed(m)

\* the real result realises the exact outcome; for integers the printed digits are the value's
RealAgrees(res, e) ==
  CASE e.k = "z" ->
         \/ /\ res.k = "z" /\ ZOf(res) = e.v
            /\ Has(res, "p") /\ ZOf(res.p) = e.v
         \/ res.k = "float" /\ Has(res, "iv") /\ ZOf(res.iv) = e.v      \* an exactly representable double
            /\ Has(res, "p") /\ ZOf(res.p) = e.v
    [] e.k = "float" -> res.k = "float"
    [] e.k = "err"   -> res.k = "err"
    [] e.k = "bool"  -> res.k = "bool" /\ res.b = e.b

\* the Go type (and, for json.Number, the sign text) the model predicts
RepAgrees(res, m) ==
  CASE m.rep \in {"int", "big"} -> res.k = "z" /\ res.go = m.rep
    [] m.rep = "jnum" -> res.k = "z" /\ res.go = "jnum"
                         /\ ((Has(res, "negzero") /\ res.negzero) <=> (m.neg /\ ZIsZero(m.mag)))
    [] m.rep = "float" -> res.k = "float"
    [] m.rep = "err" -> res.k = "err" /\ Has(res, "e") /\ res.e = m.e
    [] m.rep = "bool" -> res.k = "bool"

RunVerdict(rec, e, run) ==
  IF run.res.k = "panic" THEN [v |-> "panic"]
  ELSE LET m == Model(rec, run) IN
       IF ~ModelConsistent(m, e) THEN [v |-> "specerr"]
       ELSE [v |-> IF RealAgrees(run.res, e) THEN "agree" ELSE "mismatch",
             rep |-> RepAgrees(run.res, m),
             ek |-> e.k,
             mrep |-> m.rep]

RecVerdict(rec) ==
  LET e == Exact(rec) IN
  [id |-> rec.id, runs |-> [j \in 1..Len(rec.runs) |-> RunVerdict(rec, e, rec.runs[j])]]

\* The verdicts are computed and written while TLC computes the (single) initial state.
VARIABLE done
Init == done = ndJsonSerialize(IOEnv.VERIF_OUT, [i \in 1..Len(Trace) |-> RecVerdict(Trace[i])])
Next == UNCHANGED done
=============================================================================
