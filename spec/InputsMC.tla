------------------------------ MODULE InputsMC ------------------------------
(***************************************************************************)
(* C16 - model checking of the input iterator stack and the run loop        *)
(* (Inputs.tla) as a state machine:                                         *)
(*    MainPull   the main loop calls iter.Next()                            *)
(*    Run        code.Run(v) of the query, whose input/inputs calls pull     *)
(*               from the same iterator                                     *)
(* Universe: up to three sources out of {file f1, file f2, standard input   *)
(* "-", missing file fx} in every order (or no file argument at all), every *)
(* choice of small texts per source (values, a malformed document in every  *)
(* position), x {-n} x {-s} x every query of the program set, and the other *)
(* formats (-R, -Rs, --stream) with the queries `.` and `[inputs]`.         *)
(***************************************************************************)
EXTENDS Inputs, TLC

CONSTANTS Deep,     \* FALSE: queries of depth <= 1; TRUE: plus one level under [ ], first, try, limit, drain
          Wide      \* FALSE: fewer texts per source (quick tier)

\* texts: 49..54 = "1".."6", 32 = space, 125 = "}" (a malformed document), 10 = LF
T1 == IF Wide THEN { <<>>, <<49, 32, 50>>, <<49, 32, 125>>, <<49, 32, 125, 32, 50>>, <<125, 32, 49>> }
      ELSE { <<49, 32, 50>>, <<49, 32, 125, 32, 50>> }
T2 == { <<51>>, <<125>> }
T0 == IF Wide THEN { <<>>, <<53, 10, 54>>, <<53, 10, 125>>, <<53, 10, 125, 10, 54, 10>> }
      ELSE { <<>>, <<53, 10, 54>>, <<53, 10, 125, 10, 54, 10>> }
Names == {"f1", "f2", "-", "fx"}
FileSeqs == {<<>>} \cup {<<a>> : a \in Names} \cup {<<a, b>> : a \in Names, b \in Names}
            \cup {<<a, b, c>> : a \in Names, b \in Names, c \in Names}
Distinct(q) == \A i, j \in 1..Len(q) : i # j => q[i] # q[j]
Layouts == {[files |-> q, fs |-> [f1 |-> a, f2 |-> b], stdin |-> c] : q \in {x \in FileSeqs : Distinct(x)}, a \in T1, b \in T2, c \in T0}

D == [op |-> "dot"]
I == [op |-> "input"]
IS == [op |-> "inputs"]
E == [op |-> "empty"]
H == Str(<<104>>)
Atoms == {D, I, IS, E}
Unary(S) == {[op |-> "collect", b |-> x] : x \in S} \cup {[op |-> "first", b |-> x] : x \in S} \cup {[op |-> "drain", b |-> x] : x \in S}
            \cup {[op |-> "try", b |-> x, h |-> H] : x \in S} \cup {[op |-> "limit", n |-> 2, b |-> x] : x \in S}
Commas(S, R) == {[op |-> "comma", l |-> x, r |-> y] : x \in S, y \in R}
Progs1 == Atoms \cup Unary(Atoms) \cup Commas(Atoms, Atoms)
Progs == IF Deep THEN Progs1 \cup Unary(Commas(Atoms, Atoms)) ELSE Progs1

Mode(n, s, r, st) == [null |-> n, slurp |-> s, raw |-> r, stream |-> st]
JsonModes == {Mode(n, s, FALSE, FALSE) : n \in BOOLEAN, s \in BOOLEAN}
OtherModes == {Mode(n, s, TRUE, FALSE) : n \in BOOLEAN, s \in BOOLEAN} \cup {Mode(n, s, FALSE, TRUE) : n \in BOOLEAN, s \in BOOLEAN}
CollectInputs == [op |-> "collect", b |-> IS]

VARIABLES cfg, rs, pc, cur
vars == <<cfg, rs, pc, cur>>

Init ==
  /\ \/ \E m \in JsonModes, l \in Layouts, p \in Progs : cfg = [m |-> m, l |-> l, prog |-> p]
     \/ \E m \in OtherModes, l \in Layouts, p \in {D, CollectInputs} : cfg = [m |-> m, l |-> l, prog |-> p]
  /\ rs = RunInit(cfg.m, cfg.l.files, cfg.l.fs, cfg.l.stdin)
  /\ pc = "main"
  /\ cur = Null

MainPull ==
  /\ pc = "main"
  /\ LET x == MainNext(rs) IN
     CASE x.item.k = "none" -> pc' = "done" /\ rs' = x.rs /\ UNCHANGED cur
       [] x.item.k = "err" -> pc' = "main" /\ rs' = [x.rs EXCEPT !.nerr = @ + 1] /\ UNCHANGED cur
       [] x.item.k = "oom" -> pc' = "done" /\ rs' = [x.rs EXCEPT !.oom = TRUE] /\ UNCHANGED cur
       [] OTHER -> pc' = "run" /\ rs' = x.rs /\ cur' = x.item.v
  /\ UNCHANGED cfg

Run ==
  /\ pc = "run"
  /\ rs' = RunQuery(rs, cfg.prog, <<>>, cur)
  /\ pc' = "main"
  /\ UNCHANGED <<cfg, cur>>

Done == pc = "done" /\ UNCHANGED vars
Next == MainPull \/ Run \/ Done

\* ---------------------------------------------------------------------------
All == AllItems(cfg.m, cfg.l.files, cfg.l.fs, cfg.l.stdin)
LogItems == [i \in 1..Len(rs.it.log) |-> rs.it.log[i].item]
Vals(items) == LET idx == {i \in 1..Len(items) : items[i].k = "val"}
                   RECURSIVE F(_)
                   F(i) == IF i > Len(items) THEN <<>> ELSE (IF items[i].k = "val" THEN <<items[i].v>> ELSE <<>>) \o F(i + 1)
               IN F(1)
NErr(items) == Cardinality({i \in 1..Len(items) : items[i].k = "err"})

NoOom == ~rs.oom
\* every value is handed out at most once, in stream order across the sources, whoever asks
ExactlyOnceInOrder == Len(LogItems) <= Len(All) /\ LogItems = SubSeq(All, 1, Len(LogItems))
\* when the main loop iterates over the inputs it ends only when everything has been handed out
AllConsumed == (pc = "done" /\ ~cfg.m.null) => LogItems = All
\* the main loop of -n runs the query exactly once, on null
NullOnce == (pc = "done" /\ cfg.m.null) => (rs.ndone /\ \A i \in 1..Len(rs.it.log) : rs.it.log[i].by = "query")

\* what particular queries must print
Laws ==
  pc = "done" =>
    LET vals == Vals(All)
        b == FirstNonVal(All, 1)
        before == IF b = 0 THEN vals ELSE Vals(SubSeq(All, 1, b - 1))
    IN
    /\ (cfg.prog = D /\ ~cfg.m.null) => (rs.out = vals /\ rs.nerr = NErr(All))             \* every complete value, one error per malformed source
    /\ (cfg.prog = D /\ cfg.m.null) => (rs.out = <<Null>> /\ rs.nerr = 0)
    /\ (cfg.prog = IS /\ cfg.m.null) => (rs.out = before /\ rs.nerr = (IF b = 0 THEN 0 ELSE 1))
    /\ (cfg.prog = CollectInputs /\ cfg.m.null) =>
          (IF b = 0 THEN rs.out = <<Arr(vals)>> /\ rs.nerr = 0 ELSE rs.out = <<>> /\ rs.nerr = 1)
    /\ (cfg.prog = I /\ ~cfg.m.null /\ b = 0) =>                                              \* input past the end is an error
          (/\ rs.out = [i \in 1..(Len(vals) \div 2) |-> vals[2 * i]]
           /\ rs.nerr = Len(vals) % 2)
    /\ (cfg.prog = I /\ cfg.m.null) => (IF Len(All) = 0 \/ All[1].k # "val" THEN rs.out = <<>> /\ rs.nerr = 1 ELSE rs.out = <<All[1].v>> /\ rs.nerr = 0)

\* `-s .` = `-n [inputs]` (same layout, same format): evaluated once per layout, in the initial state of the -s run
SlurpLaw ==
  (pc = "main" /\ Len(rs.it.log) = 0 /\ ~rs.ndone /\ cfg.prog = D /\ cfg.m.slurp /\ ~cfg.m.null /\ ~cfg.m.raw) =>
    LET a == Process(rs, D, <<>>)
        m2 == [cfg.m EXCEPT !.slurp = FALSE, !.null = TRUE]
        b == Process(RunInit(m2, cfg.l.files, cfg.l.fs, cfg.l.stdin), CollectInputs, <<>>)
    IN a.out = b.out /\ a.nerr = b.nerr

\* the machine and the recursive function used as the oracle agree
OracleAgrees ==
  pc = "done" => LET f == Process(RunInit(cfg.m, cfg.l.files, cfg.l.fs, cfg.l.stdin), cfg.prog, <<>>) IN f.out = rs.out /\ f.nerr = rs.nerr
=============================================================================
