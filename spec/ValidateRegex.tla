--------------------------- MODULE ValidateRegex ---------------------------
(***************************************************************************)
(* Trace specification for C14.  Every record is one case replayed by       *)
(* `vh c14run` on the real gojq (public API, watchdog) together with what   *)
(* Go's regexp package answered when asked directly (the probes: the        *)
(* environment of Regex.tla).                                               *)
(*                                                                         *)
(*   meta.fam = "re"  : input = subject, vars = <<$re, $flags>>, probes,    *)
(*                      asts = the `str` filters of the sub/gsub runs        *)
(*   meta.fam = "pos" : input = subject, vars = <<$ks, $ij, $ts>>           *)
(*   runs[i] = [k |-> [f |-> program kind, ...], out, err?, panic?, long?]   *)
(*                                                                         *)
(* For every run TLC computes what Regex.tla prescribes and writes          *)
(*   agree | mismatch (with the expected stream) | oom | long | panic | cerr *)
(* and, per record, whether the laws of the property hold on the            *)
(* specification's objects for this instance and whether the environment    *)
(* kept the assumptions RegexMC makes about it.                             *)
(***************************************************************************)
EXTENDS JqSem, Regex

Trace == ndJsonDeserialize(IOEnv.VERIF_TRACE)

RECURSIVE VMatch(_, _)
\* does the real value r realise the specified value s (Opaque = some string)
VMatch(s, r) ==
  IF s.t = "opaque" THEN r.t \in {"str", "opaque"}
  ELSE IF s.t # r.t THEN FALSE
  ELSE CASE s.t = "arr" -> Len(s.a) = Len(r.a) /\ \A i \in 1..Len(s.a) : VMatch(s.a[i], r.a[i])
         [] s.t = "obj" -> Len(s.o) = Len(r.o) /\ \A i \in 1..Len(s.o) : s.o[i][1] = r.o[i][1] /\ VMatch(s.o[i][2], r.o[i][2])
         [] OTHER -> s = r

VMatchErr(se, re) ==
  CASE se.k = "none" -> re.k = "none"
    [] se.k = "err" -> re.k = "err" /\ (IF re.v.t = "opaque" THEN se.v.t = "opaque" ELSE VMatch(se.v, re.v))
    [] OTHER -> FALSE

\* the stream `str` produces on the captures object (evaluated by JqSem on the real parser's AST)
StrEval(ast, c) ==
  IF "perr" \in DOMAIN ast THEN VOom
  ELSE LET r == Eval(ast, c, <<>>, <<>>) IN
       IF r.e.k \in {"none", "err"} THEN [o |-> r.o, e |-> r.e] ELSE VOom

RECURSIVE ConcatFrom(_, _)
\* the concatenation of streams, cut at the first error
ConcatFrom(rs, i) ==
  IF i > Len(rs) THEN VOk(<<>>)
  ELSE IF Failed(rs[i]) THEN rs[i]
  ELSE LET rest == ConcatFrom(rs, i + 1) IN [o |-> rs[i].o \o rest.o, e |-> rest.e]
Concat(rs) == ConcatFrom(rs, 1)

IsTrue(r) == r = V1(True)
WrapW(re) == <<40, 63, 60, 119, 62>> \o re \o <<41>>                  \* "(?<w>" + $re + ")"
DotW == [k |-> "Query", Term |-> [k |-> "Term", Type |-> "TermTypeIndex", Index |-> [k |-> "Index", Name |-> "w", NameC |-> <<119>>]]]

-----------------------------------------------------------------------------
(* family "re"                                                              *)
\* the match streams every program of the record consumes, computed once
CtxRe(rec) ==
  LET v == rec.input
      re == rec.vars[1][2]
      fl == rec.vars[2][2]
      P == [subj |-> IF v.t = "str" THEN v.s ELSE <<>>, tab |-> rec.probes]
  IN [v |-> v, re |-> re, fl |-> fl, P |-> P,
      m |-> ReMatch(v, re, fl, P),                       \* match($re; $flags)
      mg |-> MatchG(v, re, fl, P),                       \* match($re; $flags + "g")
      t |-> ReTest(v, re, fl, P),
      mw |-> IF re.t = "str" THEN MatchG(v, Str(WrapW(re.s)), fl, P) ELSE VOom]

ExpectedRe(rec, k, c) ==
  LET v == c.v
      f == k.f
      str(x) == StrEval(rec.asts[k.si], x)
      \* the one-argument forms are the two-argument forms with null flags
      m1 == IF c.fl = Null THEN c.m ELSE ReMatch(v, c.re, Null, c.P)
      mg1 == IF c.fl = Null THEN c.mg ELSE MatchG(v, c.re, Null, c.P)
  IN CASE f = "match" -> c.m
       [] f = "match1" -> m1
       [] f = "matchg" -> c.mg
       [] f = "test" -> c.t
       [] f = "test1" -> (IF c.fl = Null THEN c.t ELSE ReTest(v, c.re, Null, c.P))
       [] f = "capture" -> CaptureOf(c.m)
       [] f = "capture1" -> CaptureOf(m1)
       [] f = "scan" -> ScanOf(c.mg)
       [] f = "scan1" -> ScanOf(mg1)
       [] f = "splits" -> SplitsOf(v, c.mg)
       [] f = "splits1" -> SplitsOf(v, mg1)
       [] f = "split2" -> SplitOf(v, c.mg)
       [] f = "sub" -> SubOf(v, c.m, str)
       [] f = "sub1" -> SubOf(v, m1, str)
       [] f = "gsub" -> SubOf(v, c.mg, str)
       [] f = "gsub1" -> SubOf(v, mg1, str)
       \* --- the laws of the property, run as jq programs on the real code.  Where the program does not fail the
       \*     prescribed answer is the LAW (true), not what the transcription computes (LawsRe checks that the
       \*     transcription obeys the law on this instance as well) ---
       \* . as $s | [match($re; $flags + "g") | (., (.captures[] | select(.offset >= 0))) | . as $m
       \*            | $s[$m.offset:$m.offset + $m.length] == $m.string] | all
       [] f = "law_slice" -> (IF Failed(c.mg) THEN c.mg ELSE V1(True))
       \* gsub("(?<w>" + $re + ")"; .w; $flags) == .        (only for a $re that is accepted on its own)
       [] f = "law_gsubid" -> (IF Failed(c.mg) /\ Failed(c.mw) THEN c.mw
                               ELSE IF Failed(c.mg) \/ Failed(c.mw) THEN VOom          \* the wrapper changed acceptance: the law does not speak
                               ELSE V1(True))
       \* [splits($re; $flags)] as $p | [match($re; $flags + "g") | .string] as $m
       \*   | ($p | length) == ($m | length) + 1 and ([range($m | length) as $i | $p[$i], $m[$i]] + [$p[-1]] | add) == .
       [] f = "law_splits" -> (IF Failed(c.mg) THEN c.mg ELSE V1(True))
       \* test($re; $flags) == ([match($re; $flags)] | length > 0)
       [] f = "law_test" -> (IF Failed(c.m) THEN c.m ELSE IF Failed(c.t) THEN c.t ELSE V1(True))
       \* [capture($re; $flags)] == [match($re; $flags) | [.captures[] | select(.name != null) | {key: .name, value: .string}] | from_entries]
       [] f = "law_capture" -> (IF Failed(c.m) THEN c.m ELSE V1(True))
       [] OTHER -> VOom

\* assumptions RegexMC makes about the engine, checked on what it really answered
ProbeOK(bset, p) ==
  ~p.ok \/
  (/\ \A i \in 1..Len(p.all) :
        /\ Len(p.all[i]) = 2 * (Len(p.names) + 1)
        /\ p.all[i][1] >= 0 /\ p.all[i][1] <= p.all[i][2]
        /\ \A j \in 1..Len(p.all[i]) : p.all[i][j] >= 0 => p.all[i][j] \in bset
        /\ \A j \in 1..Len(p.names) :
             \/ p.all[i][2 * j + 1] < 0
             \/ (p.all[i][1] <= p.all[i][2 * j + 1] /\ p.all[i][2 * j + 1] <= p.all[i][2 * j + 2] /\ p.all[i][2 * j + 2] <= p.all[i][2])
   /\ p.first = SubSeq(p.all, 1, IF Len(p.all) > 0 THEN 1 ELSE 0)
   /\ p.test = (Len(p.all) > 0))

EnvRe(rec) ==
  rec.input.t = "str" => LET bset == BoundarySet(Utf8Enc(rec.input.s)) IN \A i \in 1..Len(rec.probes) : ProbeOK(bset, rec.probes[i])

\* the laws on the specification's own objects for this instance (RegexMC proves them for the bounded universe;
\* here they are evaluated on the real engine's answers for longer subjects and real regexes)
LawsRe(c) ==
  c.v.t = "str" =>
    /\ \A ms \in {c.mg, c.mw} :
         (~Failed(ms)) => (/\ AdvancingLaw(c.v, ms.o)
                           /\ \A j \in 1..Len(ms.o) : MatchSliceLaw(c.v, ms.o[j]))
    /\ (~Failed(c.mg)) =>
         (/\ LET sp == SplitsOf(c.v, c.mg) IN ~Failed(sp) /\ SplitsLaw(c.v, sp.o, c.mg.o)
          /\ ~Failed(c.m) /\ c.m.o = SubSeq(c.mg.o, 1, Len(c.m.o)) /\ (HasCp(IF c.fl.t = "str" THEN c.fl.s ELSE <<>>, FlagG) \/ Len(c.m.o) = (IF Len(c.mg.o) > 0 THEN 1 ELSE 0))
          /\ c.t = V1(Bool(Len(c.mg.o) > 0)))
    /\ (~Failed(c.mg) /\ ~Failed(c.mw)) =>
         (/\ SubOf(c.v, c.mw, LAMBDA x : StrEval(DotW, x)) = V1(c.v)                         \* gsub("(?<w>RE)"; .w) = .
          /\ Len(c.mw.o) = Len(c.mg.o)
          /\ \A j \in 1..Len(c.mw.o) : /\ ObjGet(c.mw.o[j].o, kOffset) = ObjGet(c.mg.o[j].o, kOffset)
                                        /\ ObjGet(c.mw.o[j].o, kString) = ObjGet(c.mg.o[j].o, kString)
                                        /\ ObjGet(ObjGet(c.mw.o[j].o, kCaptures).a[1].o, kString) = ObjGet(c.mg.o[j].o, kString))

-----------------------------------------------------------------------------
(* family "pos"                                                             *)
ExpectedPos(rec, k) ==
  LET v == rec.input
      ks == rec.vars[1][2].a
      ij == rec.vars[2][2].a
      ts == rec.vars[3][2].a
      f == k.f
      find(t) == LET a == Native("index", v, <<t>>)
                     b == Native("rindex", v, <<t>>)
                     c == Native("indices", v, <<t>>)
                 IN IF Failed(a) THEN a ELSE IF Failed(b) THEN b ELSE IF Failed(c) THEN c ELSE V1(Arr(<<a.o[1], b.o[1], c.o[1]>>))
  IN CASE f = "length" -> Native("length", v, <<>>)
       [] f = "explode" -> Native("explode", v, <<>>)
       [] f = "explen" -> (IF v.t = "str" THEN V1(Num(Len(v.s))) ELSE VTypeErr)
       [] f = "implode" -> (IF v.t = "str" THEN V1(v) ELSE VTypeErr)
       [] f = "utf8len" -> (IF v.t = "str" THEN V1(Num(Len(Utf8Enc(v.s)))) ELSE VTypeErr)
       [] f = "index" -> Concat([i \in 1..Len(ks) |-> IndexOf(v, ks[i])])                              \* $ks[] as $i | .[$i]
       [] f = "slice" -> Concat([i \in 1..Len(ij) |-> SliceOf(v, ij[i].a[2], ij[i].a[1])])             \* $ij[] as [$i, $j] | .[$i:$j]
       [] f = "sliceopen" -> Concat([i \in 1..(2 * Len(ks)) |->                                         \* $ks[] as $i | (.[$i:], .[:$i])
                                      IF i % 2 = 1 THEN SliceOf(v, Null, ks[(i + 1) \div 2]) ELSE SliceOf(v, ks[i \div 2], Null)])
       [] f = "find" -> Concat([i \in 1..Len(ts) |-> find(ts[i])])                                     \* $ts[] as $t | [index($t), rindex($t), indices($t)]
       \* . as $s | all($ts[] as $t | indices($t)[] | $s[.:. + ($t | length)] == $t; .)
       [] f = "law_find" -> (IF v.t = "str" THEN V1(True) ELSE VOom)
       \* length == (explode | length) and (explode | implode) == .
       [] f = "law_len" -> (IF v.t = "str" THEN V1(True) ELSE VOom)
       [] OTHER -> VOom

LawsPos(rec) ==
  LET v == rec.input
      ts == rec.vars[3][2].a
  IN v.t = "str" =>
       /\ StringLengthImpl(Utf8Enc(v.s)) = Len(v.s)
       /\ \A i \in 1..Len(ts) : ts[i].t = "str" => FindLaw(v, ts[i], Native("indices", v, <<ts[i]>>).o[1].a)

-----------------------------------------------------------------------------
-----------------------------------------------------------------------------
(* Second reading of builtin.jq.  The operators of Regex.tla TRANSCRIBE the  *)
(* definitions of match ... gsub.  For the runs that carry k.pa (index of    *)
(* the program's AST in rec.asts) JqSem.tla also EVALUATES the program with  *)
(* the definitions parsed from /repo/builtin.jq (the Prelude), where the     *)
(* check appends                                                            *)
(*   def _match($re; $flags; $test):                                        *)
(*     input[[$re, $flags, $test] | tojson] | if .e then error(null) else .v end; *)
(* and feeds, as the input stream, the table of what funcMatch answers for   *)
(* the argument triples this record can ask for.  Both readings must give    *)
(* the same stream (x = "xagree"); a difference is specification drift       *)
(* (tool trouble), never a verdict about the code.                           *)
XKey(re, fl, tst) == JsonText(Arr(<<re, fl, tst>>)).s
XEntry(r) == IF Failed(r) THEN Obj(<< <<<<101>>, True>> >>) ELSE Obj(<< <<<<118>>, r.o[1]>> >>)      \* {"e": true} | {"v": result}
XTable(c) ==
  LET res == IF c.re.t = "str" THEN <<c.re, Str(WrapW(c.re.s))>> ELSE <<c.re>>
      g == PlusG(c.fl)
      fls == IF Failed(g) THEN <<c.fl>> ELSE <<c.fl, g.o[1]>>
      RECURSIVE Fill(_, _, _, _)
      Fill(i, j, b, o) ==
        IF i > Len(res) THEN o
        ELSE IF j > Len(fls) THEN Fill(i + 1, 1, 1, o)
        ELSE IF b > 2 THEN Fill(i, j + 1, 1, o)
        ELSE LET tst == IF b = 1 THEN False ELSE True
                 r == FuncMatch(c.v, res[i], fls[j], tst, c.P)
             IN Fill(i, j, b + 1, IF r.e = OOM THEN o ELSE ObjPut(o, XKey(res[i], fls[j], tst), XEntry(r)))
  IN Obj(Fill(1, 1, 1, <<>>))

XVerdict(rec, k, c, exp) ==
  LET ast == rec.asts[k.pa] IN
  IF "perr" \in DOMAIN ast \/ exp.e = OOM THEN "xoom"
  ELSE LET tab == XTable(c)
           r == Eval(ast, c.v, <<VarB("$re", c.re, NoOrg), VarB("$flags", c.fl, NoOrg)>>, [i \in 1..8 |-> tab])
       IN IF r.e.k \notin {"none", "err"} THEN "xoom"
          ELSE IF r.o = exp.o /\ r.e.k = exp.e.k THEN "xagree" ELSE "xmismatch"

RunVerdict(rec, run, c) ==
  LET exp == IF rec.meta.fam = "re" THEN ExpectedRe(rec, run.k, c) ELSE ExpectedPos(rec, run.k)
      x == IF "pa" \in DOMAIN run.k THEN [x |-> XVerdict(rec, run.k, c, exp)] ELSE [y \in {} |-> 0]
  IN
  x @@
  (IF "panic" \in DOMAIN run /\ run.panic # "" THEN [v |-> "panic"]
   ELSE IF "cerr" \in DOMAIN run THEN [v |-> "cerr"]
   ELSE IF "long" \in DOMAIN run /\ run.long THEN [v |-> "long"]
   ELSE LET re == IF "err" \in DOMAIN run THEN run.err ELSE [k |-> "none"]
        IN IF exp.e = OOM THEN [v |-> "oom"]
           ELSE IF Len(exp.o) = Len(run.out) /\ (\A i \in 1..Len(exp.o) : VMatch(exp.o[i], run.out[i])) /\ VMatchErr(exp.e, re)
                THEN [v |-> "agree", n |-> Len(exp.o), e |-> exp.e.k]
                ELSE [v |-> "mismatch", exp |-> exp])

RecVerdict(rec) ==
  LET isre == rec.meta.fam = "re"
      env == IF isre THEN EnvRe(rec) ELSE TRUE
      c == IF isre /\ env THEN CtxRe(rec) ELSE [none |-> TRUE]
  IN [id |-> rec.id,
      runs |-> IF env THEN [j \in 1..Len(rec.runs) |-> RunVerdict(rec, rec.runs[j], c)] ELSE <<>>,
      env |-> env,
      laws |-> IF isre THEN (env => LawsRe(c)) ELSE LawsPos(rec)]

VARIABLE done
Init == done = ndJsonSerialize(IOEnv.VERIF_OUT, [i \in 1..Len(Trace) |-> RecVerdict(Trace[i])])
Next == UNCHANGED done
=============================================================================
