--------------------------- MODULE ValidateRegex ---------------------------
(***************************************************************************)
(* Trace specification for C14.  Every record is one case replayed by       *)
(* `vh c14run` on the real gojq (public API, watchdog) together with what   *)
(* Go's regexp package answered when asked directly (the probes: the        *)
(* environment of Regex.tla).                                               *)
(*                                                                         *)
(*   meta.fam = "re"  : input = subject, vars = <<$re, $flags>>, probes,    *)
(*                      asts = the `str` filters of the sub/gsub runs        *)
(*   meta.fam = "pos" : input = subject, vars = <<$ks, $ij, $ts>>           *)
(*   runs[i] = [k |-> [f |-> program kind, ...], out, err?, panic?, long?]   *)
(*                                                                         *)
(* For every run TLC computes what Regex.tla prescribes and writes          *)
(*   agree | mismatch (with the expected stream) | oom | long | panic | cerr *)
(* and, per record, whether the laws of the property hold on the            *)
(* specification's objects for this instance and whether the environment    *)
(* kept the assumptions RegexMC makes about it.                             *)
(***************************************************************************)
EXTENDS JqSem, Regex

Trace == ndJsonDeserialize(IOEnv.VERIF_TRACE)

RECURSIVE VMatch(_, _)
\* does the real value r realise the specified value s (Opaque = some string)
VMatch(s, r) ==
  IF s.t = "opaque" THEN r.t \in {"str", "opaque"}
  ELSE IF s.t # r.t THEN FALSE
  ELSE CASE s.t = "arr" -> Len(s.a) = Len(r.a) /\ \A i \in 1..Len(s.a) : VMatch(s.a[i], r.a[i])
         [] s.t = "obj" -> Len(s.o) = Len(r.o) /\ \A i \in 1..Len(s.o) : s.o[i][1] = r.o[i][1] /\ VMatch(s.o[i][2], r.o[i][2])
         [] OTHER -> s = r

VMatchErr(se, re) ==
  CASE se.k = "none" -> re.k = "none"
    [] se.k = "err" -> re.k = "err" /\ (IF re.v.t = "opaque" THEN se.v.t = "opaque" ELSE VMatch(se.v, re.v))
    [] OTHER -> FALSE

\* the stream `str` produces on the captures object (evaluated by JqSem on the real parser's AST)
StrEval(ast, c) ==
  IF "perr" \in DOMAIN ast THEN VOom
  ELSE LET r == Eval(ast, c, <<>>, <<>>) IN
       IF r.e.k \in {"none", "err"} THEN [o |-> r.o, e |-> r.e] ELSE VOom

RECURSIVE ConcatFrom(_, _)
\* the concatenation of streams, cut at the first error
ConcatFrom(rs, i) ==
  IF i > Len(rs) THEN VOk(<<>>)
  ELSE IF Failed(rs[i]) THEN rs[i]
  ELSE LET rest == ConcatFrom(rs, i + 1) IN [o |-> rs[i].o \o rest.o, e |-> rest.e]
Concat(rs) == ConcatFrom(rs, 1)

IsTrue(r) == r = V1(True)
WrapW(re) == <<40, 63, 60, 119, 62>> \o re \o <<41>>                  \* "(?<w>" + $re + ")"
DotW == [k |-> "Query", Term |-> [k |-> "Term", Type |-> "TermTypeIndex", Index |-> [k |-> "Index", Name |-> "w", NameC |-> <<119>>]]]

-----------------------------------------------------------------------------
(* family "re"                                                              *)
ExpectedRe(rec, k) ==
  LET v == rec.input
      re == rec.vars[1][2]
      fl == rec.vars[2][2]
      P == [subj |-> IF v.t = "str" THEN v.s ELSE <<>>, tab |-> rec.probes]
      f == k.f
      str(c) == StrEval(rec.asts[k.si], c)
      g == PlusG(fl)
  IN CASE f = "match" -> ReMatch(v, re, fl, P)
       [] f = "match1" -> ReMatch(v, re, Null, P)
       [] f = "matchg" -> (IF Failed(g) THEN g ELSE ReMatch(v, re, g.o[1], P))
       [] f = "test" -> ReTest(v, re, fl, P)
       [] f = "test1" -> ReTest(v, re, Null, P)
       [] f = "capture" -> ReCapture(v, re, fl, P)
       [] f = "capture1" -> ReCapture(v, re, Null, P)
       [] f = "scan" -> ReScan(v, re, fl, P)
       [] f = "scan1" -> ReScan(v, re, Null, P)
       [] f = "splits" -> ReSplits(v, re, fl, P)
       [] f = "splits1" -> ReSplits(v, re, Null, P)
       [] f = "split2" -> ReSplit(v, re, fl, P)
       [] f = "sub" -> ReSub(v, re, str, fl, P)
       [] f = "sub1" -> ReSub(v, re, str, Null, P)
       [] f = "gsub" -> ReGsub(v, re, str, fl, P)
       [] f = "gsub1" -> ReGsub(v, re, str, Null, P)
       \* --- the laws of the property, run as jq programs on the real code ---
       \* . as $s | [match($re; $flags + "g") | (., (.captures[] | select(.offset >= 0))) | . as $m
       \*            | $s[$m.offset:$m.offset + $m.length] == $m.string] | all
       [] f = "law_slice" ->
            (IF Failed(g) THEN g
             ELSE LET m == ReMatch(v, re, g.o[1], P) IN
                  IF Failed(m) THEN m ELSE V1(Bool(\A i \in 1..Len(m.o) : MatchSliceLaw(v, m.o[i]))))
       \* gsub("(?<w>" + $re + ")"; .w; $flags) == .
       [] f = "law_gsubid" ->
            (IF re.t # "str" THEN VTypeErr
             ELSE LET r == ReGsub(v, Str(WrapW(re.s)), LAMBDA c : StrEval(DotW, c), fl, P) IN
                  IF Failed(r) THEN StreamErr(r.e) ELSE VOk([i \in 1..Len(r.o) |-> Bool(r.o[i] = v)]))
       \* [splits($re; $flags)] as $p | [match($re; $flags + "g") | .string] as $m
       \*   | ($p | length) == ($m | length) + 1 and ([range($m | length) as $i | $p[$i], $m[$i]] + [$p[-1]] | add) == .
       [] f = "law_splits" ->
            (LET sp == ReSplits(v, re, fl, P) IN
             IF Failed(sp) THEN StreamErr(sp.e)
             ELSE LET m == ReMatch(v, re, g.o[1], P) IN
                  IF Failed(m) THEN m ELSE V1(Bool(SplitsLaw(v, sp.o, m.o))))
       \* test($re; $flags) == ([match($re; $flags)] | length > 0)
       [] f = "law_test" ->
            (LET m == ReMatch(v, re, fl, P)
                 t == ReTest(v, re, fl, P)
             IN IF Failed(m) THEN m ELSE IF Failed(t) THEN t ELSE V1(Bool(t.o[1] = Bool(Len(m.o) > 0))))
       \* [capture($re; $flags)] == [match($re; $flags) | [.captures[] | select(.name != null) | {key: .name, value: .string}] | from_entries]
       [] f = "law_capture" ->
            (LET c == ReCapture(v, re, fl, P) IN IF Failed(c) THEN StreamErr(c.e) ELSE V1(True))
       [] OTHER -> VOom

\* assumptions RegexMC makes about the engine, checked on what it really answered
ProbeOK(b, p) ==
  ~p.ok \/
  (/\ \A i \in 1..Len(p.all) :
        /\ Len(p.all[i]) = 2 * (Len(p.names) + 1)
        /\ p.all[i][1] >= 0 /\ p.all[i][1] <= p.all[i][2]
        /\ \A j \in 1..Len(p.all[i]) : p.all[i][j] >= 0 => IsBoundary(b, p.all[i][j])
        /\ \A j \in 1..Len(p.names) :
             \/ p.all[i][2 * j + 1] < 0
             \/ (p.all[i][1] <= p.all[i][2 * j + 1] /\ p.all[i][2 * j + 1] <= p.all[i][2 * j + 2] /\ p.all[i][2 * j + 2] <= p.all[i][2])
   /\ p.first = SubSeq(p.all, 1, IF Len(p.all) > 0 THEN 1 ELSE 0)
   /\ p.test = (Len(p.all) > 0))

\* the laws on the specification's objects, for every probed pattern of this record
LawsRe(rec) ==
  LET v == rec.input IN
  v.t = "str" =>
    \A i \in 1..Len(rec.probes) :
      LET p == rec.probes[i] IN
      p.ok => LET ms == MatchObjects(v.s, p.all, p.names) IN
              /\ AdvancingLaw(v, ms)
              /\ \A j \in 1..Len(ms) : MatchSliceLaw(v, ms[j])

EnvRe(rec) ==
  rec.input.t = "str" => LET b == Utf8Enc(rec.input.s) IN \A i \in 1..Len(rec.probes) : ProbeOK(b, rec.probes[i])

-----------------------------------------------------------------------------
(* family "pos"                                                             *)
ExpectedPos(rec, k) ==
  LET v == rec.input
      ks == rec.vars[1][2].a
      ij == rec.vars[2][2].a
      ts == rec.vars[3][2].a
      f == k.f
      find(t) == LET a == Native("index", v, <<t>>)
                     b == Native("rindex", v, <<t>>)
                     c == Native("indices", v, <<t>>)
                 IN IF Failed(a) THEN a ELSE IF Failed(b) THEN b ELSE IF Failed(c) THEN c ELSE V1(Arr(<<a.o[1], b.o[1], c.o[1]>>))
  IN CASE f = "length" -> Native("length", v, <<>>)
       [] f = "explode" -> Native("explode", v, <<>>)
       [] f = "explen" -> (IF v.t = "str" THEN V1(Num(Len(v.s))) ELSE VTypeErr)
       [] f = "implode" -> (IF v.t = "str" THEN V1(v) ELSE VTypeErr)
       [] f = "utf8len" -> (IF v.t = "str" THEN V1(Num(Len(Utf8Enc(v.s)))) ELSE VTypeErr)
       [] f = "index" -> Concat([i \in 1..Len(ks) |-> IndexOf(v, ks[i])])                              \* $ks[] as $i | .[$i]
       [] f = "slice" -> Concat([i \in 1..Len(ij) |-> SliceOf(v, ij[i].a[2], ij[i].a[1])])             \* $ij[] as [$i, $j] | .[$i:$j]
       [] f = "sliceopen" -> Concat([i \in 1..(2 * Len(ks)) |->                                         \* $ks[] as $i | (.[$i:], .[:$i])
                                      IF i % 2 = 1 THEN SliceOf(v, Null, ks[(i + 1) \div 2]) ELSE SliceOf(v, ks[i \div 2], Null)])
       [] f = "find" -> Concat([i \in 1..Len(ts) |-> find(ts[i])])                                     \* $ts[] as $t | [index($t), rindex($t), indices($t)]
       \* . as $s | all($ts[] as $t | indices($t)[] | $s[.:. + ($t | length)] == $t; .)
       [] f = "law_find" -> (IF v.t = "str" THEN V1(True) ELSE VOom)
       \* length == (explode | length) and (explode | implode) == .
       [] f = "law_len" -> (IF v.t = "str" THEN V1(True) ELSE VOom)
       [] OTHER -> VOom

LawsPos(rec) ==
  LET v == rec.input
      ts == rec.vars[3][2].a
  IN v.t = "str" =>
       /\ StringLengthImpl(Utf8Enc(v.s)) = Len(v.s)
       /\ \A i \in 1..Len(ts) : ts[i].t = "str" => FindLaw(v, ts[i], Native("indices", v, <<ts[i]>>).o[1].a)

-----------------------------------------------------------------------------
RunVerdict(rec, run) ==
  IF "panic" \in DOMAIN run /\ run.panic # "" THEN [v |-> "panic"]
  ELSE IF "cerr" \in DOMAIN run THEN [v |-> "cerr"]
  ELSE IF "long" \in DOMAIN run /\ run.long THEN [v |-> "long"]
  ELSE LET exp == IF rec.meta.fam = "re" THEN ExpectedRe(rec, run.k) ELSE ExpectedPos(rec, run.k)
           re == IF "err" \in DOMAIN run THEN run.err ELSE [k |-> "none"]
       IN IF exp.e = OOM THEN [v |-> "oom"]
          ELSE IF Len(exp.o) = Len(run.out) /\ (\A i \in 1..Len(exp.o) : VMatch(exp.o[i], run.out[i])) /\ VMatchErr(exp.e, re)
               THEN [v |-> "agree", n |-> Len(exp.o), e |-> exp.e.k]
               ELSE [v |-> "mismatch", exp |-> exp]

RecVerdict(rec) ==
  [id |-> rec.id,
   runs |-> [j \in 1..Len(rec.runs) |-> RunVerdict(rec, rec.runs[j])],
   env |-> IF rec.meta.fam = "re" THEN EnvRe(rec) ELSE TRUE,
   laws |-> IF rec.meta.fam = "re" THEN (EnvRe(rec) => LawsRe(rec)) ELSE LawsPos(rec)]

VARIABLE done
Init == done = ndJsonSerialize(IOEnv.VERIF_OUT, [i \in 1..Len(Trace) |-> RecVerdict(Trace[i])])
Next == UNCHANGED done
=============================================================================
