SPECIFICATION Spec
CONSTANTS
  W = 6
  MaxDepth = 3
  Bound = 256
VIEW View
INVARIANT Exactness
INVARIANT StepOK
CHECK_DEADLOCK FALSE
