---- MODULE ConcRuns_TTrace_1790394458 ----
EXTENDS Sequences, TLCExt, Toolbox, ConcRuns, Naturals, TLC

_expression ==
    LET ConcRuns_TEExpression == INSTANCE ConcRuns_TEExpression
    IN ConcRuns_TEExpression!expression
----

_trace ==
    LET ConcRuns_TETrace == INSTANCE ConcRuns_TETrace
    IN ConcRuns_TETrace!trace
----

_inv ==
    ~(
        TLCGet("level") = Len(_TETrace)
        /\
        acc = (<<"in", "in", "idle">>)
        /\
        cache = ({})
        /\
        pc = (<<2, 1, 1>>)
        /\
        bad = (FALSE)
    )
----

_init ==
    /\ bad = _TETrace[1].bad
    /\ acc = _TETrace[1].acc
    /\ cache = _TETrace[1].cache
    /\ pc = _TETrace[1].pc
----

_next ==
    /\ \E i,j \in DOMAIN _TETrace:
        /\ \/ /\ j = i + 1
              /\ i = TLCGet("level")
        /\ bad  = _TETrace[i].bad
        /\ bad' = _TETrace[j].bad
        /\ acc  = _TETrace[i].acc
        /\ acc' = _TETrace[j].acc
        /\ cache  = _TETrace[i].cache
        /\ cache' = _TETrace[j].cache
        /\ pc  = _TETrace[i].pc
        /\ pc' = _TETrace[j].pc

\* Uncomment the ASSUME below to write the states of the error trace
\* to the given file in Json format. Note that you can pass any tuple
\* to `JsonSerialize`. For example, a sub-sequence of _TETrace.
    \* ASSUME
    \*     LET J == INSTANCE Json
    \*         IN J!JsonSerialize("ConcRuns_TTrace_1790394458.json", _TETrace)

=============================================================================

 Note that you can extract this module `ConcRuns_TEExpression`
  to a dedicated file to reuse `expression` (the module in the 
  dedicated `ConcRuns_TEExpression.tla` file takes precedence 
  over the module `ConcRuns_TEExpression` below).

---- MODULE ConcRuns_TEExpression ----
EXTENDS Sequences, TLCExt, Toolbox, ConcRuns, Naturals, TLC

expression == 
    [
        \* To hide variables of the `ConcRuns` spec from the error trace,
        \* remove the variables below.  The trace will be written in the order
        \* of the fields of this record.
        bad |-> bad
        ,acc |-> acc
        ,cache |-> cache
        ,pc |-> pc
        
        \* Put additional constant-, state-, and action-level expressions here:
        \* ,_stateNumber |-> _TEPosition
        \* ,_badUnchanged |-> bad = bad'
        
        \* Format the `bad` variable as Json value.
        \* ,_badJson |->
        \*     LET J == INSTANCE Json
        \*     IN J!ToJson(bad)
        
        \* Lastly, you may build expressions over arbitrary sets of states by
        \* leveraging the _TETrace operator.  For example, this is how to
        \* count the number of times a spec variable changed up to the current
        \* state in the trace.
        \* ,_badModCount |->
        \*     LET F[s \in DOMAIN _TETrace] ==
        \*         IF s = 1 THEN 0
        \*         ELSE IF _TETrace[s].bad # _TETrace[s-1].bad
        \*             THEN 1 + F[s-1] ELSE F[s-1]
        \*     IN F[_TEPosition - 1]
    ]

=============================================================================



Parsing and semantic processing can take forever if the trace below is long.
 In this case, it is advised to uncomment the module below to deserialize the
 trace from a generated binary file.

\*
\*---- MODULE ConcRuns_TETrace ----
\*EXTENDS IOUtils, ConcRuns, TLC
\*
\*trace == IODeserialize("ConcRuns_TTrace_1790394458.bin", TRUE)
\*
\*=============================================================================
\*

---- MODULE ConcRuns_TETrace ----
EXTENDS ConcRuns, TLC

trace == 
    <<
    ([acc |-> <<"idle", "idle", "idle">>,cache |-> {},pc |-> <<1, 1, 1>>,bad |-> FALSE]),
    ([acc |-> <<"in", "idle", "idle">>,cache |-> {},pc |-> <<1, 1, 1>>,bad |-> FALSE]),
    ([acc |-> <<"idle", "idle", "idle">>,cache |-> {},pc |-> <<2, 1, 1>>,bad |-> FALSE]),
    ([acc |-> <<"in", "idle", "idle">>,cache |-> {},pc |-> <<2, 1, 1>>,bad |-> FALSE]),
    ([acc |-> <<"in", "in", "idle">>,cache |-> {},pc |-> <<2, 1, 1>>,bad |-> FALSE])
    >>
----


=============================================================================

---- CONFIG ConcRuns_TTrace_1790394458 ----
CONSTANTS
    G = 3
    SharedInput = TRUE
    SweepWritesShared = FALSE
    Prog <- ProgDef

INVARIANT
    _inv

CHECK_DEADLOCK
    \* CHECK_DEADLOCK off because of PROPERTY or INVARIANT above.
    FALSE

INIT
    _init

NEXT
    _next

CONSTANT
    _TETrace <- _trace

ALIAS
    _expression
=============================================================================
\* Generated on Sat Sep 26 03:47:39 UTC 2026