SPECIFICATION Spec
INVARIANT StackInv
INVARIANT ProtocolInv
CHECK_DEADLOCK FALSE
