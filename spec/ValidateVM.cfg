SPECIFICATION Spec
INVARIANT StackInv
CHECK_DEADLOCK FALSE
