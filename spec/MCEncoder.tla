----------------------------- MODULE MCEncoder -----------------------------
(***************************************************************************)
(* C12, design level: the laws of the property model-checked on the        *)
(* specification of the encoders (Encoder.tla) over a bounded universe:     *)
(*                                                                          *)
(*   Strings   every byte string of length <= 2 over the 24-byte alphabet   *)
(*             Alphabet (each class of byte the encoders distinguish:       *)
(*             NUL, the five short escapes, other controls, space, quote,   *)
(*             backslash, plain ASCII, '~', DEL, continuation bytes, the    *)
(*             never-valid C0 / FF, 2-, 3- and 4-byte lead bytes with and   *)
(*             without restricted second byte) + 14 longer strings with     *)
(*             complete / truncated / overlong / surrogate / too-large      *)
(*             multi-byte sequences and U+FFFD itself                       *)
(*   Numbers   integers (int, beyond int64), float64 classes (zero, -0,     *)
(*             subnormal, both format thresholds, e-09, MaxFloat, NaN,      *)
(*             +-Inf), json.Number literals                                 *)
(*   Values    those, [x], [x, y], {k: x}, {k1: x, k2: y} for every ordered *)
(*             pair of keys of length <= 1 (sorting, collisions after       *)
(*             U+FFFD replacement), and one more level of nesting           *)
(*   Configs   compact, --indent 0..9, --tab; no colour, default palette,   *)
(*             a GOJQ_COLORS palette that also colours brackets             *)
(*                                                                          *)
(* State space: one state per value (plus the partition states that let    *)
(* TLC's workers share the work); the invariant Laws is evaluated in every *)
(* value state.                                                             *)
(***************************************************************************)
EXTENDS Encoder, TLC, SequencesExt

T == INSTANCE Text       \* the code-point level JSON text used by the evaluator specs (JqSem): cross-checked below

Alphabet == {0, 8, 9, 10, 12, 13, 31, 32, 34, 92, 97, 126, 127, 128, 169, 191, 192, 194, 226, 237, 239, 240, 244, 255}

Str0 == {<<>>}
Str1 == {<<a>> : a \in Alphabet}
Str2 == {<<a, b>> : a \in Alphabet, b \in Alphabet}
Longer == { <<226, 130, 172>>,            \* U+20AC
            <<239, 191, 189>>,            \* U+FFFD, correctly encoded: verbatim, not escaped
            <<240, 159, 152, 128>>,       \* U+1F600
            <<226, 128, 168>>,            \* U+2028: not escaped (unlike encoding/json)
            <<60, 62, 38>>,               \* < > & : not escaped
            <<226, 130>>,                 \* truncated 3-byte sequence
            <<240, 159, 152>>,            \* truncated 4-byte sequence
            <<237, 160, 128>>,            \* UTF-16 surrogate D800
            <<192, 128>>,                 \* overlong NUL
            <<224, 128, 128>>,            \* overlong 3-byte
            <<244, 144, 128, 128>>,       \* above U+10FFFF
            <<97, 255, 98, 34, 255>>,     \* pending segments around two invalid bytes
            <<194, 169, 10, 226, 130, 172, 92>>,
            <<127, 240, 159, 152, 128, 128>> }
Strings == Str0 \cup Str1 \cup Str2 \cup Longer
Keys1 == Str0 \cup Str1

Numbers == { VInt(FALSE, <<0>>), VInt(TRUE, <<1>>), VInt(FALSE, <<4, 2>>),
             VInt(FALSE, <<9, 2, 2, 3, 3, 7, 2, 0, 3, 6, 8, 5, 4, 7, 7, 5, 8, 0, 7>>),         \* MaxInt64
             VInt(TRUE, <<1, 2, 3, 4, 5, 6, 7, 8, 9, 0, 1, 2, 3, 4, 5, 6, 7, 8, 9, 0, 1, 2, 3>>),  \* *big.Int
             VFin(FALSE, <<0>>, 0), VFin(TRUE, <<0>>, 0),                                       \* 0.0, -0.0
             VFin(FALSE, <<1, 5>>, 0), VFin(TRUE, <<2, 5>>, -1), VFin(FALSE, <<3>>, 0),         \* 1.5, -0.25, 3.0
             VFin(FALSE, <<1>>, -6), VFin(FALSE, <<9, 9, 9, 9, 9, 9, 9, 9, 9, 9, 9, 9, 9, 9, 9, 9>>, -7),     \* 1e-6 | just below: e format
             VFin(FALSE, <<1>>, -7), VFin(TRUE, <<1, 2, 3>>, -9), VFin(FALSE, <<1>>, -10),      \* e-7 e-9 (cleaned up), e-10 (kept)
             VFin(FALSE, <<1>>, 20), VFin(FALSE, <<1>>, 21), VFin(FALSE, <<9, 9, 9, 9, 9, 9, 9, 9, 9, 9, 9, 9, 9, 9, 9, 9, 9>>, 20),
             VFin(FALSE, <<1, 2, 3, 4, 5, 6, 7, 8, 9, 0, 1, 2, 3, 4, 5, 6, 7>>, 22),
             VFin(FALSE, <<5>>, -324), VFin(FALSE, <<2, 2, 2, 5, 0, 7, 3, 8, 5, 8, 5, 0, 7, 2, 0, 1, 4>>, -308),   \* subnormal, smallest normal
             VFin(FALSE, MaxFloatDigits, 308), VFin(FALSE, <<3, 0, 0, 0, 0, 0, 0, 0, 0, 0, 0, 0, 0, 0, 0, 0, 4>>, -1),  \* MaxFloat, 0.1+0.2
             VNaN, VInf, VNegInf,
             VLit(<<49, 46, 48, 48, 48>>), VLit(<<49, 69, 43, 50>>), VLit(<<45, 48>>), VLit(<<49, 101, 49, 48, 48, 48>>) }   \* 1.000 1E+2 -0 1e1000
Scalars == {VNull, VBool(TRUE), VBool(FALSE)} \cup Numbers \cup {VStr(s) : s \in Strings}

Few == {VNull, VBool(TRUE), VInt(TRUE, <<1>>), VFin(FALSE, <<1>>, -7), VNaN, VStr(<<>>), VStr(<<255>>), VStr(<<34, 10>>)}
Two == {VNull, VStr(<<255, 97>>)}

Depth1 == {VArr(<<>>), VObj(<<>>)}
            \cup {VArr(<<x>>) : x \in Scalars}
            \cup {VArr(<<x, y>>) : x \in Few, y \in Few}
            \cup {VObj(<< <<k, x>> >>) : k \in Strings, x \in Two}
            \cup {VObj(<< <<p[1], VInt(FALSE, <<1>>)>>, <<p[2], VInt(FALSE, <<2>>)>> >>) : p \in {q \in Keys1 \X Keys1 : q[1] # q[2]}}      \* both orders
Inner == {VArr(<<>>), VObj(<<>>), VArr(<<VNull>>), VArr(<<VStr(<<255>>), VInt(FALSE, <<1>>)>>),
          VObj(<< <<<<97>>, VNull>> >>), VObj(<< <<<<255>>, VInt(FALSE, <<1>>)>>, <<<<254>>, VStr(<<9>>)>> >>)}
Depth2 == {VArr(<<c>>) : c \in Inner}
            \cup {VArr(<<c, d>>) : c \in Inner, d \in Inner}
            \cup {VObj(<< <<k, c>> >>) : k \in Keys1, c \in Inner}
            \cup {VObj(<< <<<<98>>, c>>, <<<<97>>, d>> >>) : c \in Inner, d \in Inner}
            \cup {VArr(<<VArr(<<c>>), VObj(<< <<<<34>>, VArr(<<VArr(<<c>>)>>)>> >>)>>) : c \in Inner}         \* depth 4-5: several indent levels

Universe == Scalars \cup Depth1 \cup Depth2
USeq == SetToSeq(Universe)
NU == Len(USeq)

\* configurations ------------------------------------------------------------
Indents == -1..9
BaseCfgs == {[indent |-> i, tab |-> FALSE] : i \in Indents} \cup {[indent |-> 1, tab |-> TRUE], [indent |-> -1, tab |-> TRUE]}
CustomColors == <<52, 58, 58, 48, 59, 51, 49, 58, 58, 58, 49, 59, 51, 52, 58, 49, 58, 50>>      \* "4::0;31:::1;34:1:2"
CustomPalette == SetColors(CustomColors).pal
Palettes == {DefaultPalette, CustomPalette}

\* the laws ------------------------------------------------------------------
\* the position-by-position forms used for long strings agree with the left-to-right scans: on every string of
\* the universe and on every string of length <= 4 over bytes that combine into 2-, 3- and 4-byte sequences
MbAlphabet == {65, 128, 152, 159, 194, 226, 240}
MbStrings == {<<a, b, c>> : a \in MbAlphabet, b \in MbAlphabet, c \in MbAlphabet}
               \cup {<<a, b, c, d>> : a \in MbAlphabet, b \in MbAlphabet, c \in MbAlphabet, d \in MbAlphabet}
FastForms(s) == /\ EncStringFast(s) = EncStringScan(s)
                /\ ToValidFast(s) = ToValidScan(s)
                /\ ValidUtf8Fast(s) = ValidUtf8(s)
FastLaws == \A s \in MbStrings \cup Longer : FastForms(s)

NoRawControl(s) == \A i \in 1..Len(s) : s[i] >= 32 /\ s[i] # 127
RECURSIVE HasCollision(_)
HasCollision(v) ==
  CASE v.t = "arr" -> \E i \in 1..Len(v.a) : HasCollision(v.a[i])
    [] v.t = "obj" -> (\E i \in 1..Len(v.o) : HasCollision(v.o[i][2]))
                        \/ (\E i, j \in 1..Len(v.o) : i # j /\ ToValid(v.o[i][1]) = ToValid(v.o[j][1]))
    [] OTHER -> FALSE

\* translation into the value model of JsonValue.tla / Text.tla, where it exists
SmallInt(v) == Len(v.d) <= 9
RECURSIVE InTextModel(_)
InTextModel(v) ==
  CASE v.t \in {"null", "bool"} -> TRUE
    [] v.t = "int" -> TRUE
    [] v.t = "flt" -> v.k # "fin"
    [] v.t = "lit" -> FALSE
    [] v.t = "str" -> ValidUtf8(v.b)
    [] v.t = "arr" -> \A i \in 1..Len(v.a) : InTextModel(v.a[i])
    [] v.t = "obj" -> IsSortedPairs(v.o) /\ \A i \in 1..Len(v.o) : ValidUtf8(v.o[i][1]) /\ InTextModel(v.o[i][2])
RECURSIVE ToText(_)
ToText(v) ==
  CASE v.t = "null" -> T!Null
    [] v.t = "bool" -> T!Bool(v.v)
    [] v.t = "int" -> (IF SmallInt(v) THEN T!Num(IF v.neg THEN 0 - SmallNat(DigitBytes(v.d), 1, 0) ELSE SmallNat(DigitBytes(v.d), 1, 0))
                       ELSE [t |-> "big", neg |-> v.neg, d |-> v.d])
    [] v.t = "flt" -> T!Flt(v.k)
    [] v.t = "str" -> T!Str(Runes(v.b))
    [] v.t = "arr" -> T!Arr([i \in 1..Len(v.a) |-> ToText(v.a[i])])
    [] v.t = "obj" -> T!Obj([i \in 1..Len(v.o) |-> <<Runes(v.o[i][1]), ToText(v.o[i][2])>>])

LibLaws(v) ==
  LET e == Enc(v) IN
  /\ (v.t = "str" => FastForms(v.b))
  /\ ValidUtf8(e)                                           \* the text is valid UTF-8
  /\ NoRawControl(e)                                        \* no control character (or DEL) is written raw
  /\ Dec(e) = [ok |-> TRUE, v |-> Norm(v)]                  \* well-formed JSON that reads back equal; tojson|fromjson
  /\ Norm(Norm(v)) = Norm(v)                                \* what was read back reads back unchanged
  /\ Dec(Enc(Norm(v))) = [ok |-> TRUE, v |-> Norm(v)]       \* ... also through a second tojson|fromjson
  /\ (~HasCollision(v) => Squeeze(e) = e /\ SameValue(Dec(Enc(Norm(v))).v, Dec(e).v))
  /\ (ValidUtf8(e) /\ v.t = "str" /\ ValidUtf8(v.b) => Norm(v) = v)     \* valid strings are preserved exactly
  /\ (IsNumberV(v) /\ ~(v.t = "flt" /\ v.k = "nan") =>
        DecimalOf(e) = NumberValue(v))                      \* a number reads back as the same number
  /\ FuncToString(v) = (IF v.t = "str" THEN v ELSE VStr(e))
  /\ (InTextModel(v) => LET t == T!JsonText(ToText(v)) IN t.ok /\ BytesOf(t.s) = e)     \* Text.tla agrees

CliLaws(v, c) ==
  LET plain == CliBytes(v, c, NoPalette)
      e == Enc(v)
  IN /\ (c.indent = -1 => plain = e)                        \* the two copies of the encoder agree
     /\ Squeeze(plain) = e                                  \* modes agree up to insignificant white space
     /\ Dec(plain) = Dec(e)
     /\ ValidUtf8(plain)
     /\ (c.indent >= 0 => IndentLaw(plain, c))              \* indentation = depth * unit
     /\ (c.indent = -1 => \A i \in 1..Len(plain) : plain[i] # LF)
     /\ \A p \in Palettes :
          LET col == CliBytes(v, c, p) IN
          /\ StripSGR(col) = plain                          \* colour only adds SGR sequences
          /\ StripSGRScan(col) = plain                      \* (both formulations of StripSGR)
          /\ ValidUtf8(col)

Laws(v) == LibLaws(v) /\ \A c \in BaseCfgs : CliLaws(v, c)

\* texts with broken, nested and adjacent SGR sequences (raw output can contain anything)
SgrTexts == { <<27, 91, 109>>, <<27, 91, 49, 109, 27, 91, 48, 109>>, <<27, 91, 49, 27, 91, 48, 109, 109>>, <<27, 27, 91, 51, 59, 109, 120>>,
              <<27, 91, 49, 120, 109>>, <<91, 49, 109, 27, 91>>, <<27, 91, 59, 59, 109, 49, 109, 27>>, <<49, 50, 109, 27, 91, 49, 50>>,
              <<97, 27, 91, 51, 56, 59, 53, 59, 50, 48, 56, 109, 98, 27, 91, 48, 109, 99, 100, 101, 102, 103, 104, 105, 106, 107, 108, 109, 110>> }

\* GOJQ_COLORS parsing (setColors / validColor)
ColorLaws ==
  /\ SetColors(CustomColors).ok
  /\ CustomPalette.null = SGR(<<52>>) /\ CustomPalette.false = <<>> /\ CustomPalette.true = SGR(<<48, 59, 51, 49>>)
  /\ CustomPalette.number = <<>> /\ CustomPalette.key = SGR(<<49, 59, 51, 52>>) /\ CustomPalette.array = SGR(<<49>>)
  /\ CustomPalette.object = SGR(<<50>>)
  /\ SetColors(<<49>>).pal = [NoPalette EXCEPT !.null = SGR(<<49>>)]                   \* missing fields: no colour
  /\ ~SetColors(<<49, 59>>).ok /\ ~SetColors(<<59, 49>>).ok /\ ~SetColors(<<58, 120>>).ok /\ ~SetColors(<<49, 59, 59, 50>>).ok
  /\ SetColors(<<58, 58, 58, 58, 58, 58, 58, 58, 120>>).ok                             \* a ninth field is never looked at
  /\ PaletteOf(TRUE, <<>>).pal = DefaultPalette /\ PaletteOf(FALSE, <<120>>).pal = NoPalette
  /\ \A t \in SgrTexts : StripSGR(t) = StripSGRScan(t)

\* state space -----------------------------------------------------------------
Parts == 64
VARIABLES phase, part, idx
vars == <<phase, part, idx>>
Init == phase = 0 /\ part = 0 /\ idx = 0
Next == \/ phase = 0 /\ phase' = 1 /\ part' \in 1..Parts /\ idx' = 0
        \/ phase = 1 /\ phase' = 2 /\ part' = part /\ idx' \in {i \in 1..NU : i % Parts = part % Parts}
Inv == /\ (phase = 0 => ColorLaws /\ FastLaws)
       /\ (phase = 2 => Laws(USeq[idx]))
=============================================================================
