---- MODULE ValidateVM_TTrace_1790384203 ----
EXTENDS Sequences, TLCExt, ValidateVM, Toolbox, Naturals, TLC

_expression ==
    LET ValidateVM_TEExpression == INSTANCE ValidateVM_TEExpression
    IN ValidateVM_TEExpression!expression
----

_trace ==
    LET ValidateVM_TETrace == INSTANCE ValidateVM_TETrace
    IN ValidateVM_TETrace!trace
----

_inv ==
    ~(
        TLCGet("level") = Len(_TETrace)
        /\
        vm = ([status |-> "yield", pc |-> 7, code |-> <<[v |-> [id |-> 1, argc |-> 0, cnt |-> 0], op |-> "scope"], [v |-> [n |-> 5], op |-> "forktrybegin"], [v |-> [argc |-> 0, native |-> "error"], op |-> "call"], [op |-> "forktryend"], [v |-> [n |-> 5], op |-> "nop"], [op |-> "ret"]>>, steps |-> 4, bt |-> TRUE, forks |-> <<>>, stack |-> [index |-> 1, limit |-> 0, data |-> <<[v |-> [t |-> "obj", o |-> <<<<<<97>>, [t |-> "obj", o |-> <<<<<<98>>, [n |-> 1, t |-> "num"]>>>>]>>, <<<<99>>, [t |-> "arr", a |-> <<[n |-> 0, t |-> "num"], [n |-> 1, t |-> "num"]>>]>>>>], next |-> 0]>>], scopes |-> [index |-> 1, limit |-> 0, data |-> <<[v |-> [pc |-> 6, offset |-> 0, id |-> 1, outer |-> 0, save |-> 0], next |-> 0]>>], paths |-> [index |-> 0, limit |-> 0, data |-> <<>>], offset |-> 0, expdepth |-> 0, out |-> <<[t |-> "ctxerr"], [t |-> "error", e |-> [k |-> "err", v |-> [t |-> "obj", o |-> <<<<<<97>>, [t |-> "obj", o |-> <<<<<<98>>, [n |-> 1, t |-> "num"]>>>>]>>, <<<<99>>, [t |-> "arr", a |-> <<[n |-> 0, t |-> "num"], [n |-> 1, t |-> "num"]>>]>>>>]]]>>, cancel |-> 4, fail |-> "", err |-> [k |-> "none"], values |-> <<>>, label |-> 0, callpc |-> 6, index |-> 0])
        /\
        fin = (FALSE)
        /\
        k = (929)
        /\
        n = (4)
    )
----

_init ==
    /\ k = _TETrace[1].k
    /\ n = _TETrace[1].n
    /\ fin = _TETrace[1].fin
    /\ vm = _TETrace[1].vm
----

_next ==
    /\ \E i,j \in DOMAIN _TETrace:
        /\ \/ /\ j = i + 1
              /\ i = TLCGet("level")
        /\ k  = _TETrace[i].k
        /\ k' = _TETrace[j].k
        /\ n  = _TETrace[i].n
        /\ n' = _TETrace[j].n
        /\ fin  = _TETrace[i].fin
        /\ fin' = _TETrace[j].fin
        /\ vm  = _TETrace[i].vm
        /\ vm' = _TETrace[j].vm

\* Uncomment the ASSUME below to write the states of the error trace
\* to the given file in Json format. Note that you can pass any tuple
\* to `JsonSerialize`. For example, a sub-sequence of _TETrace.
    \* ASSUME
    \*     LET J == INSTANCE Json
    \*         IN J!JsonSerialize("ValidateVM_TTrace_1790384203.json", _TETrace)

=============================================================================

 Note that you can extract this module `ValidateVM_TEExpression`
  to a dedicated file to reuse `expression` (the module in the 
  dedicated `ValidateVM_TEExpression.tla` file takes precedence 
  over the module `ValidateVM_TEExpression` below).

---- MODULE ValidateVM_TEExpression ----
EXTENDS Sequences, TLCExt, ValidateVM, Toolbox, Naturals, TLC

expression == 
    [
        \* To hide variables of the `ValidateVM` spec from the error trace,
        \* remove the variables below.  The trace will be written in the order
        \* of the fields of this record.
        k |-> k
        ,n |-> n
        ,fin |-> fin
        ,vm |-> vm
        
        \* Put additional constant-, state-, and action-level expressions here:
        \* ,_stateNumber |-> _TEPosition
        \* ,_kUnchanged |-> k = k'
        
        \* Format the `k` variable as Json value.
        \* ,_kJson |->
        \*     LET J == INSTANCE Json
        \*     IN J!ToJson(k)
        
        \* Lastly, you may build expressions over arbitrary sets of states by
        \* leveraging the _TETrace operator.  For example, this is how to
        \* count the number of times a spec variable changed up to the current
        \* state in the trace.
        \* ,_kModCount |->
        \*     LET F[s \in DOMAIN _TETrace] ==
        \*         IF s = 1 THEN 0
        \*         ELSE IF _TETrace[s].k # _TETrace[s-1].k
        \*             THEN 1 + F[s-1] ELSE F[s-1]
        \*     IN F[_TEPosition - 1]
    ]

=============================================================================



Parsing and semantic processing can take forever if the trace below is long.
 In this case, it is advised to uncomment the module below to deserialize the
 trace from a generated binary file.

\*
\*---- MODULE ValidateVM_TETrace ----
\*EXTENDS IOUtils, ValidateVM, TLC
\*
\*trace == IODeserialize("ValidateVM_TTrace_1790384203.bin", TRUE)
\*
\*=============================================================================
\*

---- MODULE ValidateVM_TETrace ----
EXTENDS ValidateVM, TLC

trace == 
    <<
    ([vm |-> [status |-> "run", pc |-> 1, code |-> <<[v |-> [id |-> 1, argc |-> 0, cnt |-> 0], op |-> "scope"], [v |-> [n |-> 5], op |-> "forktrybegin"], [v |-> [argc |-> 0, native |-> "error"], op |-> "call"], [op |-> "forktryend"], [v |-> [n |-> 5], op |-> "nop"], [op |-> "ret"]>>, steps |-> 0, bt |-> FALSE, forks |-> <<>>, stack |-> [index |-> 1, limit |-> 0, data |-> <<[v |-> [t |-> "obj", o |-> <<<<<<97>>, [t |-> "obj", o |-> <<<<<<98>>, [n |-> 1, t |-> "num"]>>>>]>>, <<<<99>>, [t |-> "arr", a |-> <<[n |-> 0, t |-> "num"], [n |-> 1, t |-> "num"]>>]>>>>], next |-> 0]>>], scopes |-> [index |-> 0, limit |-> 0, data |-> <<>>], paths |-> [index |-> 0, limit |-> 0, data |-> <<>>], offset |-> 0, expdepth |-> 0, out |-> <<>>, cancel |-> 4, fail |-> "", err |-> [k |-> "none"], values |-> <<>>, label |-> 0, callpc |-> 6, index |-> 0],fin |-> FALSE,k |-> 929,n |-> 0]),
    ([vm |-> [status |-> "run", pc |-> 2, code |-> <<[v |-> [id |-> 1, argc |-> 0, cnt |-> 0], op |-> "scope"], [v |-> [n |-> 5], op |-> "forktrybegin"], [v |-> [argc |-> 0, native |-> "error"], op |-> "call"], [op |-> "forktryend"], [v |-> [n |-> 5], op |-> "nop"], [op |-> "ret"]>>, steps |-> 1, bt |-> FALSE, forks |-> <<>>, stack |-> [index |-> 1, limit |-> 0, data |-> <<[v |-> [t |-> "obj", o |-> <<<<<<97>>, [t |-> "obj", o |-> <<<<<<98>>, [n |-> 1, t |-> "num"]>>>>]>>, <<<<99>>, [t |-> "arr", a |-> <<[n |-> 0, t |-> "num"], [n |-> 1, t |-> "num"]>>]>>>>], next |-> 0]>>], scopes |-> [index |-> 1, limit |-> 0, data |-> <<[v |-> [pc |-> 6, offset |-> 0, id |-> 1, outer |-> 0, save |-> 0], next |-> 0]>>], paths |-> [index |-> 0, limit |-> 0, data |-> <<>>], offset |-> 0, expdepth |-> 0, out |-> <<>>, cancel |-> 4, fail |-> "", err |-> [k |-> "none"], values |-> <<>>, label |-> 0, callpc |-> 6, index |-> 0],fin |-> FALSE,k |-> 929,n |-> 1]),
    ([vm |-> [status |-> "run", pc |-> 3, code |-> <<[v |-> [id |-> 1, argc |-> 0, cnt |-> 0], op |-> "scope"], [v |-> [n |-> 5], op |-> "forktrybegin"], [v |-> [argc |-> 0, native |-> "error"], op |-> "call"], [op |-> "forktryend"], [v |-> [n |-> 5], op |-> "nop"], [op |-> "ret"]>>, steps |-> 2, bt |-> FALSE, forks |-> <<[pc |-> 2, offset |-> 0, expdepth |-> 0, si |-> 1, sl |-> 0, ci |-> 1, cl |-> 0, pi |-> 0, pl |-> 0]>>, stack |-> [index |-> 1, limit |-> 1, data |-> <<[v |-> [t |-> "obj", o |-> <<<<<<97>>, [t |-> "obj", o |-> <<<<<<98>>, [n |-> 1, t |-> "num"]>>>>]>>, <<<<99>>, [t |-> "arr", a |-> <<[n |-> 0, t |-> "num"], [n |-> 1, t |-> "num"]>>]>>>>], next |-> 0]>>], scopes |-> [index |-> 1, limit |-> 1, data |-> <<[v |-> [pc |-> 6, offset |-> 0, id |-> 1, outer |-> 0, save |-> 0], next |-> 0]>>], paths |-> [index |-> 0, limit |-> 0, data |-> <<>>], offset |-> 0, expdepth |-> 0, out |-> <<>>, cancel |-> 4, fail |-> "", err |-> [k |-> "none"], values |-> <<>>, label |-> 0, callpc |-> 6, index |-> 0],fin |-> FALSE,k |-> 929,n |-> 2]),
    ([vm |-> [status |-> "unwind", pc |-> 3, code |-> <<[v |-> [id |-> 1, argc |-> 0, cnt |-> 0], op |-> "scope"], [v |-> [n |-> 5], op |-> "forktrybegin"], [v |-> [argc |-> 0, native |-> "error"], op |-> "call"], [op |-> "forktryend"], [v |-> [n |-> 5], op |-> "nop"], [op |-> "ret"]>>, steps |-> 3, bt |-> FALSE, forks |-> <<[pc |-> 2, offset |-> 0, expdepth |-> 0, si |-> 1, sl |-> 0, ci |-> 1, cl |-> 0, pi |-> 0, pl |-> 0]>>, stack |-> [index |-> 0, limit |-> 1, data |-> <<[v |-> [t |-> "obj", o |-> <<<<<<97>>, [t |-> "obj", o |-> <<<<<<98>>, [n |-> 1, t |-> "num"]>>>>]>>, <<<<99>>, [t |-> "arr", a |-> <<[n |-> 0, t |-> "num"], [n |-> 1, t |-> "num"]>>]>>>>], next |-> 0]>>], scopes |-> [index |-> 1, limit |-> 1, data |-> <<[v |-> [pc |-> 6, offset |-> 0, id |-> 1, outer |-> 0, save |-> 0], next |-> 0]>>], paths |-> [index |-> 0, limit |-> 0, data |-> <<>>], offset |-> 0, expdepth |-> 0, out |-> <<>>, cancel |-> 4, fail |-> "", err |-> [k |-> "err", v |-> [t |-> "obj", o |-> <<<<<<97>>, [t |-> "obj", o |-> <<<<<<98>>, [n |-> 1, t |-> "num"]>>>>]>>, <<<<99>>, [t |-> "arr", a |-> <<[n |-> 0, t |-> "num"], [n |-> 1, t |-> "num"]>>]>>>>]], values |-> <<>>, label |-> 0, callpc |-> 6, index |-> 0],fin |-> FALSE,k |-> 929,n |-> 3]),
    ([vm |-> [status |-> "run", pc |-> 2, code |-> <<[v |-> [id |-> 1, argc |-> 0, cnt |-> 0], op |-> "scope"], [v |-> [n |-> 5], op |-> "forktrybegin"], [v |-> [argc |-> 0, native |-> "error"], op |-> "call"], [op |-> "forktryend"], [v |-> [n |-> 5], op |-> "nop"], [op |-> "ret"]>>, steps |-> 3, bt |-> TRUE, forks |-> <<>>, stack |-> [index |-> 1, limit |-> 0, data |-> <<[v |-> [t |-> "obj", o |-> <<<<<<97>>, [t |-> "obj", o |-> <<<<<<98>>, [n |-> 1, t |-> "num"]>>>>]>>, <<<<99>>, [t |-> "arr", a |-> <<[n |-> 0, t |-> "num"], [n |-> 1, t |-> "num"]>>]>>>>], next |-> 0]>>], scopes |-> [index |-> 1, limit |-> 0, data |-> <<[v |-> [pc |-> 6, offset |-> 0, id |-> 1, outer |-> 0, save |-> 0], next |-> 0]>>], paths |-> [index |-> 0, limit |-> 0, data |-> <<>>], offset |-> 0, expdepth |-> 0, out |-> <<>>, cancel |-> 4, fail |-> "", err |-> [k |-> "err", v |-> [t |-> "obj", o |-> <<<<<<97>>, [t |-> "obj", o |-> <<<<<<98>>, [n |-> 1, t |-> "num"]>>>>]>>, <<<<99>>, [t |-> "arr", a |-> <<[n |-> 0, t |-> "num"], [n |-> 1, t |-> "num"]>>]>>>>]], values |-> <<>>, label |-> 0, callpc |-> 6, index |-> 0],fin |-> FALSE,k |-> 929,n |-> 3]),
    ([vm |-> [status |-> "yield", pc |-> 7, code |-> <<[v |-> [id |-> 1, argc |-> 0, cnt |-> 0], op |-> "scope"], [v |-> [n |-> 5], op |-> "forktrybegin"], [v |-> [argc |-> 0, native |-> "error"], op |-> "call"], [op |-> "forktryend"], [v |-> [n |-> 5], op |-> "nop"], [op |-> "ret"]>>, steps |-> 4, bt |-> TRUE, forks |-> <<>>, stack |-> [index |-> 1, limit |-> 0, data |-> <<[v |-> [t |-> "obj", o |-> <<<<<<97>>, [t |-> "obj", o |-> <<<<<<98>>, [n |-> 1, t |-> "num"]>>>>]>>, <<<<99>>, [t |-> "arr", a |-> <<[n |-> 0, t |-> "num"], [n |-> 1, t |-> "num"]>>]>>>>], next |-> 0]>>], scopes |-> [index |-> 1, limit |-> 0, data |-> <<[v |-> [pc |-> 6, offset |-> 0, id |-> 1, outer |-> 0, save |-> 0], next |-> 0]>>], paths |-> [index |-> 0, limit |-> 0, data |-> <<>>], offset |-> 0, expdepth |-> 0, out |-> <<[t |-> "ctxerr"]>>, cancel |-> 4, fail |-> "", err |-> [k |-> "err", v |-> [t |-> "obj", o |-> <<<<<<97>>, [t |-> "obj", o |-> <<<<<<98>>, [n |-> 1, t |-> "num"]>>>>]>>, <<<<99>>, [t |-> "arr", a |-> <<[n |-> 0, t |-> "num"], [n |-> 1, t |-> "num"]>>]>>>>]], values |-> <<>>, label |-> 0, callpc |-> 6, index |-> 0],fin |-> FALSE,k |-> 929,n |-> 4]),
    ([vm |-> [status |-> "run", pc |-> 7, code |-> <<[v |-> [id |-> 1, argc |-> 0, cnt |-> 0], op |-> "scope"], [v |-> [n |-> 5], op |-> "forktrybegin"], [v |-> [argc |-> 0, native |-> "error"], op |-> "call"], [op |-> "forktryend"], [v |-> [n |-> 5], op |-> "nop"], [op |-> "ret"]>>, steps |-> 4, bt |-> TRUE, forks |-> <<>>, stack |-> [index |-> 1, limit |-> 0, data |-> <<[v |-> [t |-> "obj", o |-> <<<<<<97>>, [t |-> "obj", o |-> <<<<<<98>>, [n |-> 1, t |-> "num"]>>>>]>>, <<<<99>>, [t |-> "arr", a |-> <<[n |-> 0, t |-> "num"], [n |-> 1, t |-> "num"]>>]>>>>], next |-> 0]>>], scopes |-> [index |-> 1, limit |-> 0, data |-> <<[v |-> [pc |-> 6, offset |-> 0, id |-> 1, outer |-> 0, save |-> 0], next |-> 0]>>], paths |-> [index |-> 0, limit |-> 0, data |-> <<>>], offset |-> 0, expdepth |-> 0, out |-> <<[t |-> "ctxerr"]>>, cancel |-> 4, fail |-> "", err |-> [k |-> "err", v |-> [t |-> "obj", o |-> <<<<<<97>>, [t |-> "obj", o |-> <<<<<<98>>, [n |-> 1, t |-> "num"]>>>>]>>, <<<<99>>, [t |-> "arr", a |-> <<[n |-> 0, t |-> "num"], [n |-> 1, t |-> "num"]>>]>>>>]], values |-> <<>>, label |-> 0, callpc |-> 6, index |-> 0],fin |-> FALSE,k |-> 929,n |-> 4]),
    ([vm |-> [status |-> "unwind", pc |-> 7, code |-> <<[v |-> [id |-> 1, argc |-> 0, cnt |-> 0], op |-> "scope"], [v |-> [n |-> 5], op |-> "forktrybegin"], [v |-> [argc |-> 0, native |-> "error"], op |-> "call"], [op |-> "forktryend"], [v |-> [n |-> 5], op |-> "nop"], [op |-> "ret"]>>, steps |-> 4, bt |-> TRUE, forks |-> <<>>, stack |-> [index |-> 1, limit |-> 0, data |-> <<[v |-> [t |-> "obj", o |-> <<<<<<97>>, [t |-> "obj", o |-> <<<<<<98>>, [n |-> 1, t |-> "num"]>>>>]>>, <<<<99>>, [t |-> "arr", a |-> <<[n |-> 0, t |-> "num"], [n |-> 1, t |-> "num"]>>]>>>>], next |-> 0]>>], scopes |-> [index |-> 1, limit |-> 0, data |-> <<[v |-> [pc |-> 6, offset |-> 0, id |-> 1, outer |-> 0, save |-> 0], next |-> 0]>>], paths |-> [index |-> 0, limit |-> 0, data |-> <<>>], offset |-> 0, expdepth |-> 0, out |-> <<[t |-> "ctxerr"]>>, cancel |-> 4, fail |-> "", err |-> [k |-> "err", v |-> [t |-> "obj", o |-> <<<<<<97>>, [t |-> "obj", o |-> <<<<<<98>>, [n |-> 1, t |-> "num"]>>>>]>>, <<<<99>>, [t |-> "arr", a |-> <<[n |-> 0, t |-> "num"], [n |-> 1, t |-> "num"]>>]>>>>]], values |-> <<>>, label |-> 0, callpc |-> 6, index |-> 0],fin |-> FALSE,k |-> 929,n |-> 4]),
    ([vm |-> [status |-> "yield", pc |-> 7, code |-> <<[v |-> [id |-> 1, argc |-> 0, cnt |-> 0], op |-> "scope"], [v |-> [n |-> 5], op |-> "forktrybegin"], [v |-> [argc |-> 0, native |-> "error"], op |-> "call"], [op |-> "forktryend"], [v |-> [n |-> 5], op |-> "nop"], [op |-> "ret"]>>, steps |-> 4, bt |-> TRUE, forks |-> <<>>, stack |-> [index |-> 1, limit |-> 0, data |-> <<[v |-> [t |-> "obj", o |-> <<<<<<97>>, [t |-> "obj", o |-> <<<<<<98>>, [n |-> 1, t |-> "num"]>>>>]>>, <<<<99>>, [t |-> "arr", a |-> <<[n |-> 0, t |-> "num"], [n |-> 1, t |-> "num"]>>]>>>>], next |-> 0]>>], scopes |-> [index |-> 1, limit |-> 0, data |-> <<[v |-> [pc |-> 6, offset |-> 0, id |-> 1, outer |-> 0, save |-> 0], next |-> 0]>>], paths |-> [index |-> 0, limit |-> 0, data |-> <<>>], offset |-> 0, expdepth |-> 0, out |-> <<[t |-> "ctxerr"], [t |-> "error", e |-> [k |-> "err", v |-> [t |-> "obj", o |-> <<<<<<97>>, [t |-> "obj", o |-> <<<<<<98>>, [n |-> 1, t |-> "num"]>>>>]>>, <<<<99>>, [t |-> "arr", a |-> <<[n |-> 0, t |-> "num"], [n |-> 1, t |-> "num"]>>]>>>>]]]>>, cancel |-> 4, fail |-> "", err |-> [k |-> "none"], values |-> <<>>, label |-> 0, callpc |-> 6, index |-> 0],fin |-> FALSE,k |-> 929,n |-> 4])
    >>
----


=============================================================================

---- CONFIG ValidateVM_TTrace_1790384203 ----

INVARIANT
    _inv

CHECK_DEADLOCK
    \* CHECK_DEADLOCK off because of PROPERTY or INVARIANT above.
    FALSE

INIT
    _init

NEXT
    _next

CONSTANT
    _TETrace <- _trace

ALIAS
    _expression
=============================================================================
\* Generated on Sat Sep 26 00:57:31 UTC 2026