------------------------------- MODULE GenOps -------------------------------
(***************************************************************************)
(* Case generator of C09 (model -> code).  Writes, as SOURCE TEXT:          *)
(*   - every ordered pair and triple of the 24 binary operators around      *)
(*     atoms (24^2 + 24^3 texts per atom style; the styles put unary signs, *)
(*     suffixes, `try`, parentheses and strings next to the operators)      *)
(*   - every ordered pair of operators around each delimiting construct     *)
(*     (`as`, `def`, `label`, `reduce`, `foreach`, `if`, `try`/`catch`,     *)
(*     unary sign, object values, brackets, arguments, interpolation, `?//`)*)
(* and the token alphabets of C09Universe (the check enumerates the token   *)
(* sequences itself).  The real parser must give, for each text, exactly    *)
(* the tree or the syntax error Grammar.tla computes.                       *)
(***************************************************************************)
EXTENDS C09Universe, FiniteSets, TLC, Json, IOUtils, SequencesExt

Ops == <<"|", ",", "//", "=", "|=", "+=", "-=", "*=", "/=", "%=", "//=", "or", "and",
         "==", "!=", "<", "<=", ">", ">=", "+", "-", "*", "/", "%">>
NOps == Len(Ops)

Atoms(s) == CASE s = 1 -> <<"1", ".a", "$x", "f">>
              [] s = 2 -> <<"-1", ".a.b?", "-.[0]", "try f">>
              [] s = 3 -> <<"(1)", "..", "\"s\"", "[.]">>
              [] s = 4 -> <<".", ".[]", "+f(1)", "{}">>
NStyles == 4

Sp(o) == " " \o o \o " "
Pair(s, i, j) == LET a == Atoms(s) IN a[1] \o Sp(Ops[i]) \o a[2] \o Sp(Ops[j]) \o a[3]
Triple(s, i, j, k) == LET a == Atoms(s) IN a[1] \o Sp(Ops[i]) \o a[2] \o Sp(Ops[j]) \o a[3] \o Sp(Ops[k]) \o a[4]

\* operators o and p around / inside each delimiting construct
Ctx(o, p) == <<
  "1" \o Sp(o) \o ".a as $v | 2" \o Sp(p) \o "3",
  "1" \o Sp(o) \o "def g: 2; 3" \o Sp(p) \o "4",
  "def g: 1" \o Sp(o) \o "2; 3" \o Sp(p) \o "4",
  "1" \o Sp(o) \o "label $l | 2" \o Sp(p) \o "3",
  "1" \o Sp(o) \o "reduce .a as $v (0; 1)" \o Sp(p) \o "3",
  "reduce 1" \o Sp(o) \o "2 as $v (0; 1" \o Sp(p) \o "2)",
  "foreach 1" \o Sp(o) \o "2 as [$v] (0" \o Sp(p) \o "1; .; .)",
  "1" \o Sp(o) \o "try .a" \o Sp(p) \o "2",
  "1" \o Sp(o) \o "try .a catch .b" \o Sp(p) \o "2",
  "try 1" \o Sp(o) \o "2 catch 3" \o Sp(p) \o "4",
  "1" \o Sp(o) \o "if .a then 2 else 3 end" \o Sp(p) \o "4",
  "if 1" \o Sp(o) \o "2 then 3" \o Sp(p) \o "4 elif 5 then 6 end",
  "1" \o Sp(o) \o "-.a" \o Sp(p) \o "2",
  "-1" \o Sp(o) \o "+2" \o Sp(p) \o "- 3",
  "{a: 1" \o Sp(o) \o "2" \o Sp(p) \o "3}",
  "{(1" \o Sp(o) \o "2): 3" \o Sp(p) \o "4, b: 5}",
  "[1" \o Sp(o) \o "2" \o Sp(p) \o "3]",
  ".[1" \o Sp(o) \o "2 : 3" \o Sp(p) \o "4]",
  "f(1" \o Sp(o) \o "2; 3" \o Sp(p) \o "4)",
  "\"x\\(1" \o Sp(o) \o "2" \o Sp(p) \o "3)y\"",
  ". as [$a] ?// $b | 1" \o Sp(o) \o "2" \o Sp(p) \o "3",
  "1" \o Sp(o) \o "2 as [$a] ?// {a: $b} | 3" \o Sp(p) \o "4",
  "1" \o Sp(o) \o ".a?" \o Sp(p) \o "2",
  "1" \o Sp(o) \o "break $l" \o Sp(p) \o "@f \"s\"" >>

Pairs == [n \in 1..(NStyles * NOps * NOps) |->
            LET m == n - 1 IN
            [src |-> Pair((m \div (NOps * NOps)) + 1, ((m \div NOps) % NOps) + 1, (m % NOps) + 1), tag |-> "pair"]]
Triples == [n \in 1..(NStyles * NOps * NOps * NOps) |->
            LET m == n - 1 IN
            [src |-> Triple((m \div (NOps * NOps * NOps)) + 1, ((m \div (NOps * NOps)) % NOps) + 1,
                            ((m \div NOps) % NOps) + 1, (m % NOps) + 1), tag |-> "triple"]]
NCtx == Len(Ctx("+", "+"))
Ctxs == [n \in 1..(NCtx * NOps * NOps) |->
            LET m == n - 1 IN
            [src |-> Ctx(Ops[((m \div NOps) % NOps) + 1], Ops[(m % NOps) + 1])[(m \div (NOps * NOps)) + 1], tag |-> "ctx"]]

Alphabets == [i \in 1..Len(Profiles) |-> [profile |-> Profiles[i], alphabet |-> Alphabet(Profiles[i])]]

VARIABLE done
Init == done = (ndJsonSerialize(IOEnv.VERIF_OUT, Pairs \o Triples \o Ctxs)
                /\ ndJsonSerialize(IOEnv.VERIF_OUT2, Alphabets))
Next == UNCHANGED done
=============================================================================
