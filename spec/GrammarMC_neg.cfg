\* negative control: with the deviation "dotBracket" switched on the printer must FAIL the round-trip law
\* (TLC finds `. . [ .a ]`)
SPECIFICATION Spec
CONSTANTS
  Profile = "terms"
  MaxLen = 5
INVARIANTS NegDotBracket
CHECK_DEADLOCK FALSE
