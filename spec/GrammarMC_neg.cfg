\* negative control: the printer exactly as query.go has it must FAIL the round-trip law
\* (TLC finds `. . [ . ]`; with Profile = "modules", MaxLen = 5 it finds `import "" as a ;`)
SPECIFICATION Spec
CONSTANTS
  Profile = "terms"
  MaxLen = 5
INVARIANTS RoundTripStrict
CHECK_DEADLOCK FALSE
