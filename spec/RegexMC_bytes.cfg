SPECIFICATION Spec
CONSTANTS
  Alphabet = {97, 233}
  MaxLen = 2
  WithGroup2 = FALSE
  OffsetsInCodePoints <- DeviationBytes
INVARIANTS SliceInv
CHECK_DEADLOCK FALSE
