------------------------------- MODULE JqSem -------------------------------
(***************************************************************************)
(* Semantics of the jq language as gojq implements it: a store-passing,     *)
(* continuation-passing evaluator over the gojq.Query AST (the JSON shape   *)
(* produced by reflection from the implementation's own parser output).     *)
(*                                                                         *)
(*   Run(q, it, env, K, S, f)                                              *)
(*     q    query (record with fields of gojq.Query)                       *)
(*     it   current item [v, m, p, pv, st]: value, mode ("v" value / "p"   *)
(*          path tracking), path so far, value last navigated to, and      *)
(*          whether v IS that value ("nav"), is known not to be ("fresh")  *)
(*          or the model cannot know ("unk")                               *)
(*     env  lexical environment, a sequence of bindings                    *)
(*     K    continuation: a sequence of frames, the rest of the program    *)
(*     S    store: the state that backtracking does NOT restore (reduce /  *)
(*          foreach accumulators, `//` found-flags, the input stream)      *)
(*     f    fuel = remaining nesting depth; doubles as a source of ids     *)
(*          unique among live activations (labels, store cells)            *)
(*   result [o |-> outputs of the WHOLE rest of the computation,           *)
(*           e |-> NoErr | ErrV(v) | Brk(id) | HaltE | W(e) | OOM,           *)
(*           s |-> store]                                                  *)
(*                                                                         *)
(* Continuations are needed because jq is not compositional: a pending      *)
(* `?//` alternative intercepts errors raised DOWNSTREAM of the binding     *)
(* expression; `try` must not.  Laziness (first, limit, label/break on      *)
(* infinite generators) falls out: an error cuts the enumeration short.     *)
(* OOM ("out of model") is never caught and makes the whole case undecided. *)
(***************************************************************************)
EXTENDS Builtins, TLC, Json, IOUtils

\* sequence of FuncDef records: /repo/builtin.jq and spec/prelude_spec.jq, parsed by the REAL parser at check time
Prelude == ndJsonDeserialize(IOEnv.VERIF_PRELUDE)

W(e) == [k |-> "w", e |-> e]         \* an error that passed the end of a try body (tryEndError)

\* items -------------------------------------------------------------------
Item(v, m, p, pv, st) == [v |-> v, m |-> m, p |-> p, pv |-> pv, st |-> st]
VItem(v) == Item(v, "v", <<>>, Null, "nav")
AsValueMode(it) == [it EXCEPT !.m = "v"]
\* a value computed from it (not reached by navigation)
Derived(it, v, st) == [it EXCEPT !.v = v, !.st = st]
Fresh(it, v) == Derived(it, v, "fresh")
Unk(it, v) == Derived(it, v, "unk")

\* reduce / foreach destructure their source outside an expbegin/expend pair: in path mode the index steps of an array or object
\* PATTERN are pushed on the path stack, so the value pathIntact compares with is no longer the one the model tracks
PatternTop(pat, it) == IF "Name" \in DOMAIN pat THEN it ELSE [it EXCEPT !.pv = [t |-> "opaque"]]

Opq(v) == v.t = "opaque"
RECURSIVE DeepOpq(_)
DeepOpq(v) == CASE v.t = "opaque" -> TRUE
                [] v.t = "arr" -> \E i \in 1..Len(v.a) : DeepOpq(v.a[i])
                [] v.t = "obj" -> \E i \in 1..Len(v.o) : DeepOpq(v.o[i][2])
                [] OTHER -> FALSE

\* "is the value about to be navigated still the value at the current path?"
\* -> "yes" | "no" | "unk"   (execute.go pathIntact)
Intact(it) ==
  IF it.v.t = "opaque" \/ it.pv.t = "opaque" THEN "unk"
  ELSE IF IsContainer(it.v) THEN
       (IF it.st = "nav" THEN "yes"
        ELSE IF it.st = "unk" THEN "unk"
        ELSE IF it.v.t = "arr" /\ Len(it.v.a) = 0 /\ it.pv.t = "arr" /\ Len(it.pv.a) = 0 THEN "yes"   \* empty arrays have no identity (fix cc7d735; deviation from C02's wording: F-C02-empty-array-location)
        ELSE "no")
  ELSE IF IsContainer(it.pv) THEN "no"
  ELSE IF IsNumber(it.v) /\ IsNumber(it.pv) THEN
       (IF ~(Known(it.v) /\ Known(it.pv)) THEN "unk"
        ELSE IF it.v.t = "float" /\ it.v.f = "nan" /\ it.pv.t = "float" /\ it.pv.f = "nan" THEN "yes"
        ELSE IF CmpNum(it.v, it.pv) = 0 THEN "yes" ELSE "no")
  ELSE IF it.v = it.pv THEN "yes" ELSE "no"

\* store -------------------------------------------------------------------
InitStore(n, inputs) == [c |-> [i \in 1..(n + 1) |-> Null], inp |-> inputs]
SGet(S, id) == S.c[id + 1]
SSet(S, id, x) == [S EXCEPT !.c[id + 1] = x]

RR(o, e, s) == [o |-> o, e |-> e, s |-> s]
Done(S) == RR(<<>>, NoErr, S)
Raise(e, S) == RR(<<>>, e, S)
InvalidPath(S) == Raise(ErrV(Opaque), S)

\* environment -----------------------------------------------------------------
Has(r, fld) == fld \in DOMAIN r
RECURSIVE LookupVar(_, _, _)
LookupVar(env, n, i) == IF i = 0 THEN 0 ELSE IF env[i].b = "var" /\ env[i].n = n THEN i ELSE LookupVar(env, n, i - 1)
RECURSIVE LookupLbl(_, _, _)
LookupLbl(env, n, i) == IF i = 0 THEN 0 ELSE IF env[i].b = "lbl" /\ env[i].n = n THEN i ELSE LookupLbl(env, n, i - 1)
RECURSIVE LookupFn(_, _, _, _)
LookupFn(env, n, ar, i) ==
  IF i = 0 THEN 0
  ELSE IF (env[i].b = "fn" /\ env[i].n = n /\ Len(env[i].ps) = ar) \/ (env[i].b = "clo" /\ env[i].n = n /\ ar = 0) THEN i
  ELSE LookupFn(env, n, ar, i - 1)
RECURSIVE LookupPrelude(_, _, _)
LookupPrelude(n, ar, i) ==
  IF i > Len(Prelude) THEN 0
  ELSE IF Prelude[i].Name = n /\ (IF Has(Prelude[i], "Args") THEN Len(Prelude[i].Args) ELSE 0) = ar THEN i
  ELSE LookupPrelude(n, ar, i + 1)
\* FuncDef records carry Args (names as written), ArgsBare (without the $) and ArgsVar (is it a $name)
FnRec(fd) == [ps |-> IF Has(fd, "Args") THEN fd.Args ELSE <<>>,
              bare |-> IF Has(fd, "Args") THEN fd.ArgsBare ELSE <<>>,
              isvar |-> IF Has(fd, "Args") THEN fd.ArgsVar ELSE <<>>,
              body |-> fd.Body]
FnBinding(fd) == [b |-> "fn", n |-> fd.Name] @@ FnRec(fd)
RECURSIVE AddDefs(_, _, _)
AddDefs(env, fds, i) == IF i > Len(fds) THEN env ELSE AddDefs(Append(env, FnBinding(fds[i])), fds, i + 1)
VarB(n, v, org) == [b |-> "var", n |-> n, v |-> v, org |-> org]
NoOrg == <<"none">>
OrgOf(it) == IF it.m = "p" /\ it.st = "nav" THEN <<"at", it.p>> ELSE NoOrg

\* synthetic AST nodes (the desugarings compiler.go performs) --------------------
TermQ(t) == [k |-> "Query", Term |-> t]
IdentityT == [k |-> "Term", Type |-> "TermTypeIdentity"]
IdentityQ == TermQ(IdentityT)
ConstT(b) == [k |-> "Term", Type |-> IF b THEN "TermTypeTrue" ELSE "TermTypeFalse"]
FuncT(name, args) == [k |-> "Term", Type |-> "TermTypeFunc", Func |-> IF Len(args) = 0 THEN [k |-> "Func", Name |-> name, NameC |-> <<0>>] ELSE [k |-> "Func", Name |-> name, NameC |-> <<0>>, Args |-> args]]
VarT(name) == [k |-> "Term", Type |-> "TermTypeFunc", Func |-> [k |-> "Func", Name |-> name, NameC |-> <<36>>]]
IfQ(c, t, e) == TermQ([k |-> "Term", Type |-> "TermTypeIf", If |-> [k |-> "If", Cond |-> c, Then |-> t, Else |-> e]])
PipeQ(l, r) == [k |-> "Query", Left |-> l, Op |-> "|", Right |-> r]
BinQ(op, l, r) == [k |-> "Query", Left |-> l, Op |-> op, Right |-> r]
StrT(str) == [k |-> "Term", Type |-> "TermTypeString", Str |-> str]
TryQ(term) == TermQ([k |-> "Term", Type |-> "TermTypeTry", Try |-> [k |-> "Try", Body |-> TermQ(term)]])
\* the term with only its first n suffixes
PrefixTerm(t, n) == IF n = 0 THEN [x \in (DOMAIN t) \ {"SuffixList"} |-> t[x]] ELSE [t EXCEPT !.SuffixList = SubSeq(t.SuffixList, 1, n)]

OpFunc(op) == CASE op = "+" -> "_add" [] op = "-" -> "_subtract" [] op = "*" -> "_multiply" [] op = "/" -> "_divide"
                [] op = "%" -> "_modulo" [] op = "==" -> "_equal" [] op = "!=" -> "_notequal" [] op = ">" -> "_greater"
                [] op = "<" -> "_less" [] op = ">=" -> "_greatereq" [] op = "<=" -> "_lesseq"
                [] op = "+=" -> "_add" [] op = "-=" -> "_subtract" [] op = "*=" -> "_multiply" [] op = "/=" -> "_divide"
                [] op = "%=" -> "_modulo" [] op = "//=" -> "_alternative" [] OTHER -> "?"
ArithOpsSyntax == {"+", "-", "*", "/", "%", "==", "!=", ">", "<", ">=", "<="}
UpdateOpsSyntax == {"+=", "-=", "*=", "/=", "%=", "//="}

FormatFunc(fmt) == CASE fmt = "@text" -> "tostring" [] fmt = "@json" -> "tojson" [] fmt = "@html" -> "_tohtml"
                     [] fmt = "@uri" -> "_touri" [] fmt = "@urid" -> "_tourid" [] fmt = "@csv" -> "_tocsv" [] fmt = "@tsv" -> "_totsv"
                     [] fmt = "@sh" -> "_tosh" [] fmt = "@base64" -> "_tobase64" [] fmt = "@base64d" -> "_tobase64d" [] OTHER -> "?"

\* compileString: "a\(x)b" = "a" + (x | tostring) + "b", left associated
RECURSIVE InterpQ(_, _, _, _)
InterpQ(qs, i, acc, fname) ==
  IF i > Len(qs) THEN acc
  ELSE LET e0 == qs[i]
           isLit == Has(e0, "Term") /\ Has(e0.Term, "Str") /\ e0.Term.Type = "TermTypeString"
           e1 == IF isLit THEN e0 ELSE PipeQ(e0, TermQ(FuncT(fname, <<>>)))
       IN InterpQ(qs, i + 1, IF i = 1 THEN e1 ELSE BinQ("+", acc, e1), fname)

\* argument descriptors of a native call
ArgQ(q) == [a |-> "q", q |-> q]
ArgT(t, n) == [a |-> "t", t |-> t, n |-> n]
ArgNull == [a |-> "null"]

\* destructuring ---------------------------------------------------------------
\* Destructure(p, v) -> [k |-> "ok", b |-> <<bindings>>] | [k |-> "err"] | [k |-> "oom"]
RECURSIVE Destructure(_, _, _)
Destructure(p, v, org) ==
  IF Has(p, "Name") THEN [k |-> "ok", b |-> <<VarB(p.Name, v, org)>>]
  ELSE IF Has(p, "Array") THEN
       (IF Opq(v) THEN [k |-> "oom"]
        ELSE IF v.t \notin {"null", "arr"} THEN [k |-> "err"]
        ELSE LET RECURSIVE F(_, _)
                 F(i, acc) == IF i > Len(p.Array) THEN [k |-> "ok", b |-> acc]
                              ELSE LET x == IF v.t = "arr" /\ i <= Len(v.a) THEN v.a[i] ELSE Null
                                       r == Destructure(p.Array[i], x, NoOrg)
                                   IN IF r.k # "ok" THEN r ELSE F(i + 1, acc \o r.b)
             IN F(1, <<>>))
  ELSE IF Has(p, "Object") THEN
       (IF Opq(v) THEN [k |-> "oom"]
        ELSE LET RECURSIVE F(_, _)
                 F(i, acc) ==
                   IF i > Len(p.Object) THEN [k |-> "ok", b |-> acc]
                   ELSE LET kv == p.Object[i]
                            isVar == Has(kv, "Key") /\ kv.KeyC[1] = 36      \* $name
                            keycp == IF Has(kv, "Key") THEN (IF isVar THEN Tail(kv.KeyC) ELSE kv.KeyC)
                                     ELSE IF Has(kv, "KeyString") /\ ~Has(kv.KeyString, "Queries") THEN kv.KeyString.StrC
                                     ELSE <<-1>>
                        IN IF keycp = <<-1>> THEN [k |-> "oom"]        \* computed keys: not modelled
                           ELSE IF v.t \notin {"null", "obj"} THEN [k |-> "err"]
                           ELSE LET x == IF v.t = "obj" THEN ObjGet(v.o, keycp) ELSE Null
                                    b1 == IF isVar THEN <<VarB(kv.Key, x, NoOrg)>> ELSE <<>>
                                    r == IF Has(kv, "Val") THEN Destructure(kv.Val, x, NoOrg) ELSE [k |-> "ok", b |-> <<>>]
                                IN IF r.k # "ok" THEN r ELSE F(i + 1, acc \o b1 \o r.b)
             IN F(1, <<>>))
  ELSE [k |-> "oom"]

\* all variable names of a pattern (for ?//: every alternative's variables are in scope)
RECURSIVE PatVars(_)
PatVars(p) ==
  IF Has(p, "Name") THEN <<p.Name>>
  ELSE IF Has(p, "Array") THEN
       LET RECURSIVE F(_) F(i) == IF i > Len(p.Array) THEN <<>> ELSE PatVars(p.Array[i]) \o F(i + 1) IN F(1)
  ELSE IF Has(p, "Object") THEN
       LET RECURSIVE F(_)
           F(i) == IF i > Len(p.Object) THEN <<>>
                   ELSE (IF Has(p.Object[i], "Key") /\ p.Object[i].KeyC[1] = 36 THEN <<p.Object[i].Key>> ELSE <<>>)
                        \o (IF Has(p.Object[i], "Val") THEN PatVars(p.Object[i].Val) ELSE <<>>) \o F(i + 1)
       IN F(1)
  ELSE <<>>
RECURSIVE AllPatVars(_, _)
AllPatVars(ps, i) == IF i > Len(ps) THEN <<>> ELSE PatVars(ps[i]) \o AllPatVars(ps, i + 1)
NullBinds(names) == [i \in 1..Len(names) |-> VarB(names[i], Null, NoOrg)]

\* number literal of the query text
LitNumber(cp) == ParseNumber(cp)

-----------------------------------------------------------------------------
RECURSIVE Run(_, _, _, _, _, _)
RECURSIVE RunTerm(_, _, _, _, _, _, _)
RECURSIVE Cont(_, _, _, _)
RECURSIVE Each(_, _, _, _, _)
RECURSIVE CallNative(_, _, _, _, _, _, _, _)
RECURSIVE EvalArgs(_, _, _, _, _)
RECURSIVE BindParams(_, _, _, _, _, _, _)
RECURSIVE TryAlts(_, _, _, _, _, _, _, _)
RECURSIVE ObjStep(_, _, _, _, _, _, _, _)

\* feed the items one after the other to the continuation, threading the store
Each(items, i, K, S, f) ==
  IF i > Len(items) THEN Done(S)
  ELSE LET r == Cont(items[i], K, S, f) IN
       IF r.e # NoErr THEN r
       ELSE LET rest == Each(items, i + 1, K, r.s, f) IN RR(r.o \o rest.o, rest.e, rest.s)

\* --- navigation -------------------------------------------------------------------
\* x[k] with path tracking.  it = the item being navigated.
Navigate(it, key, K, S, f) ==
  IF Opq(it.v) \/ DeepOpq(key) THEN Raise(OOM, S)
  ELSE LET r == IndexOf(it.v, key) IN
       IF r.e = OOM THEN Raise(OOM, S)
       ELSE IF r.e # NoErr THEN Raise(r.e, S)
       ELSE IF it.m = "v" THEN Cont(Derived(it, r.o[1], "nav"), K, S, f)
       ELSE LET ok == Intact(it) IN
            IF ok = "unk" THEN Raise(OOM, S)
            ELSE IF ok = "no" THEN InvalidPath(S)
            ELSE Cont(Item(r.o[1], "p", Append(it.p, key), r.o[1], "nav"), K, S, f)

SliceKey(s, e) == Obj(<< <<CpOf(<<"e","n","d">>), e>>, <<CpOf(<<"s","t","a","r","t">>), s>> >>)

Iterate(it, K, S, f) ==
  IF Opq(it.v) THEN Raise(OOM, S)
  ELSE IF ~IsContainer(it.v) THEN Raise(ErrV(Opaque), S)
  ELSE LET ok == IF it.m = "p" THEN Intact(it) ELSE "yes" IN
       IF ok = "unk" THEN Raise(OOM, S)
       ELSE IF ok = "no" THEN InvalidPath(S)
       ELSE LET n == IF it.v.t = "arr" THEN Len(it.v.a) ELSE Len(it.v.o)
                elem(i) == IF it.v.t = "arr" THEN it.v.a[i] ELSE it.v.o[i][2]
                key(i) == IF it.v.t = "arr" THEN Num(i - 1) ELSE Str(it.v.o[i][1])
                items == [i \in 1..n |-> IF it.m = "v" THEN Derived(it, elem(i), "nav")
                                         ELSE Item(elem(i), "p", Append(it.p, key(i)), elem(i), "nav")]
            IN Each(items, 1, K, S, f)

\* --- the continuation ----------------------------------------------------------------
Cont(it, K, S, f) ==
  IF Len(K) = 0 THEN RR(<<it.v>>, NoErr, S)
  ELSE
  LET fr == K[1]
      KK == Tail(K)
  IN
  CASE fr.k = "q" -> Run(fr.q, it, fr.env, KK, S, f)
    [] fr.k = "te" ->          \* end of a try body: errors from here on are not this try's
         LET r == Cont(it, KK, S, f) IN
         IF r.e = NoErr \/ r.e = OOM THEN r ELSE RR(r.o, W(r.e), r.s)
    [] fr.k = "altf" ->        \* output of the left operand of //
         IF Opq(it.v) THEN Raise(OOM, S)
         ELSE IF Truthy(it.v) THEN Cont(it, KK, SSet(S, fr.c, True), f) ELSE Done(S)
    [] fr.k = "arg" -> EvalArgs(fr, it, KK, S, f)
    [] fr.k = "ifc" ->         \* a condition value
         IF Opq(it.v) THEN Raise(OOM, S)
         ELSE IF Truthy(it.v) THEN Run(fr.node.Then, fr.inp, fr.env, KK, S, f)
         ELSE IF Has(fr.node, "Elif") /\ Len(fr.node.Elif) > 0 THEN
              \* compileIf(&If{Elif[0].Cond, Elif[0].Then, Elif[1:], Else})
              LET e1 == fr.node.Elif[1]
                  node == [k |-> "If", Cond |-> e1.Cond, Then |-> e1.Then, Elif |-> Tail(fr.node.Elif)]
                          @@ (IF Has(fr.node, "Else") THEN [Else |-> fr.node.Else] ELSE [k |-> "If"])
              IN Run(node.Cond, AsValueMode(fr.inp), fr.env, <<[fr EXCEPT !.node = node]>> \o KK, S, f)
         ELSE IF Has(fr.node, "Else") THEN Run(fr.node.Else, fr.inp, fr.env, KK, S, f)
         ELSE Cont(fr.inp, KK, S, f)
    [] fr.k = "bind" ->        \* an output of the source of `as`
         TryAlts(fr.pats, 1, it, fr, KK, S, f, AllPatVars(fr.pats, 1))
    [] fr.k = "red1" ->        \* an initial value of reduce
         LET c == f
             S1 == SSet(S, c, it)
             r == Run(fr.node.Query, fr.inp, fr.env, <<[k |-> "red2", c |-> c, node |-> fr.node, env |-> fr.env]>>, S1, f - 1)
         IN IF r.e # NoErr THEN RR(<<>>, r.e, r.s)
            ELSE LET st == SGet(r.s, c)
                     \* the state flows on with the path state of the initial value
                     out == IF it.m = "v" THEN st ELSE IF st = it THEN it ELSE Derived(it, st.v, IF IsContainer(st.v) THEN "unk" ELSE "fresh")
                 IN Cont(out, KK, r.s, f)
    [] fr.k = "red2" ->        \* an output of the reduce source
         LET d == Destructure(fr.node.Pattern, it.v, OrgOf(it)) IN
         IF d.k = "oom" THEN Raise(OOM, S) ELSE IF d.k = "err" THEN Raise(ErrV(Opaque), S)
         ELSE LET st == SGet(S, fr.c)
                  inp == IF it.m = "v" THEN st ELSE PatternTop(fr.node.Pattern, Derived(it, st.v, IF IsContainer(st.v) THEN "unk" ELSE "fresh"))
              IN Run(fr.node.Update, inp, fr.env \o d.b, <<[k |-> "red3", c |-> fr.c]>>, S, f)
    [] fr.k = "red3" -> Done(SSet(S, fr.c, it))
    [] fr.k = "fe1" ->         \* an initial value of foreach
         LET c == f
             S1 == SSet(S, c, it)
         IN Run(fr.node.Query, fr.inp, fr.env, <<[k |-> "fe2", c |-> c, node |-> fr.node, env |-> fr.env]>> \o KK, S1, f - 1)
    [] fr.k = "fe2" ->         \* an output of the foreach source
         LET d == Destructure(fr.node.Pattern, it.v, OrgOf(it)) IN
         IF d.k = "oom" THEN Raise(OOM, S) ELSE IF d.k = "err" THEN Raise(ErrV(Opaque), S)
         ELSE LET st == SGet(S, fr.c)
                  inp == IF it.m = "v" THEN st ELSE PatternTop(fr.node.Pattern, Derived(it, st.v, IF IsContainer(st.v) THEN "unk" ELSE "fresh"))
              IN Run(fr.node.Update, inp, fr.env \o d.b, <<[k |-> "fe3", c |-> fr.c, node |-> fr.node, env |-> fr.env \o d.b]>> \o KK, S, f)
    [] fr.k = "fe3" ->         \* an output of the foreach update
         LET S1 == SSet(S, fr.c, it) IN
         IF Has(fr.node, "Extract") THEN Run(fr.node.Extract, it, fr.env, KK, S1, f) ELSE Cont(it, KK, S1, f)
    [] fr.k = "pe" ->          \* end of path(f): the item must still be the navigated value
         LET ok == Intact(it) IN
         IF ok = "unk" THEN Raise(OOM, S)
         ELSE IF ok = "no" THEN InvalidPath(S)
         ELSE Cont(Fresh(fr.cur, Arr(it.p)), KK, S, f)
    [] fr.k = "par" -> BindParams(fr.fn, fr.i, Append(fr.env, VarB(fr.name, it.v, NoOrg)), fr.inp, KK, S, f)
    [] fr.k = "objk" ->        \* a key of an object construction
         IF Opq(it.v) THEN Raise(OOM, S)
         ELSE LET kv == fr.kvs[fr.i] IN
              IF Has(kv, "Val") THEN Run(kv.Val, fr.inp, fr.env, <<[fr EXCEPT !.k = "objv", !.key = it.v]>> \o KK, S, f)
              ELSE \* {"\(..)"} : value is .[key]
                   Navigate(AsValueMode(fr.inp), it.v, <<[fr EXCEPT !.k = "objv", !.key = it.v]>> \o KK, S, f)
    [] fr.k = "objv" -> ObjStep(fr.kvs, fr.i + 1, Append(fr.acc, <<fr.key, it.v>>), fr.inp, fr.env, KK, S, f)
    [] fr.k = "iter" -> Iterate(it, KK, S, f)
    [] fr.k = "nav" -> Navigate(it, fr.key, KK, S, f)
    [] OTHER -> Raise(OOM, S)

\* --- object construction ------------------------------------------------------------
\* kvs from index i on; acc = <<key value, value>> pairs so far.  ctx = [s, f]
ObjStep(kvs, i, acc, inp, env, K, S, f) ==
  IF i > Len(kvs) THEN
     \* opobject: keys must be strings; the LAST pair with a given key wins
     IF \E j \in 1..Len(acc) : Opq(acc[j][1]) THEN Raise(OOM, S)
     ELSE IF \E j \in 1..Len(acc) : acc[j][1].t # "str" THEN Raise(ErrV(Opaque), S)
     ELSE LET RECURSIVE B(_, _)
              B(j, o) == IF j > Len(acc) THEN o ELSE B(j + 1, ObjPut(o, acc[j][1].s, acc[j][2]))
          IN Cont(Fresh(inp, Obj(B(1, <<>>))), K, S, f)
  ELSE
  LET kv == kvs[i]
      fr == [k |-> "objk", kvs |-> kvs, i |-> i, acc |-> acc, inp |-> inp, env |-> env, key |-> Null]
  IN
  IF Has(kv, "Key") THEN
     IF kv.KeyC[1] = 36 THEN        \* {$x} or {$x: v}?? ($__loc__ not modelled)
        IF kv.Key = "$__loc__" THEN Raise(OOM, S)
        ELSE LET j == LookupVar(env, kv.Key, Len(env)) IN
             IF j = 0 THEN Raise(OOM, S)
             ELSE IF Has(kv, "Val") THEN Raise(OOM, S)
             ELSE ObjStep(kvs, i + 1, Append(acc, <<Str(Tail(kv.KeyC)), env[j].v>>), inp, env, K, S, f)
     ELSE IF Has(kv, "Val") THEN Run(kv.Val, inp, env, <<[fr EXCEPT !.k = "objv", !.key = Str(kv.KeyC)]>> \o K, S, f)
     ELSE Navigate(AsValueMode(inp), Str(kv.KeyC), <<[fr EXCEPT !.k = "objv", !.key = Str(kv.KeyC)]>> \o K, S, f)
  ELSE IF Has(kv, "KeyString") THEN
     IF ~Has(kv.KeyString, "Queries") THEN
        IF Has(kv, "Val") THEN Run(kv.Val, inp, env, <<[fr EXCEPT !.k = "objv", !.key = Str(kv.KeyString.StrC)]>> \o K, S, f)
        ELSE Navigate(AsValueMode(inp), Str(kv.KeyString.StrC), <<[fr EXCEPT !.k = "objv", !.key = Str(kv.KeyString.StrC)]>> \o K, S, f)
     ELSE Run(InterpQ(kv.KeyString.Queries, 1, IdentityQ, "tostring"), inp, env, <<fr>> \o K, S, f)
  ELSE IF Has(kv, "KeyQuery") THEN Run(kv.KeyQuery, inp, env, <<fr>> \o K, S, f)
  ELSE Raise(OOM, S)

\* --- `as` bindings with alternatives --------------------------------------------------
\* src = an output of the source; alternative i of fr.pats
TryAlts(pats, i, src, fr, K, S, f, allvars) ==
  LET d == Destructure(pats[i], src.v, OrgOf(src))
      last == i = Len(pats)
      r == IF d.k = "oom" THEN Raise(OOM, S)
           ELSE IF d.k = "err" THEN Raise(ErrV(Opaque), S)
           ELSE Run(fr.body, fr.inp, (fr.env \o NullBinds(allvars)) \o d.b, K, S, f - 1)
  IN IF last \/ r.e = NoErr \/ r.e = OOM THEN r
     ELSE LET rest == TryAlts(pats, i + 1, src, fr, K, r.s, f, allvars) IN RR(r.o \o rest.o, rest.e, rest.s)

\* --- calls --------------------------------------------------------------------------
\* Native call protocol (compileCallInternal): arguments are evaluated LAST FIRST, each
\* on the original input, every output of an argument re-running what follows.
\* fr = [k |-> "arg", name, args (descriptors), i (index of the argument being awaited),
\*       vals (values of args i+1..n, as a function on indices), env, inp, vm (index from which
\*       arguments are evaluated in value mode; 0 = none), ps (path state carrier item)]
EvalArgs(fr, it, K, S, f) ==
  \* `it` is an output of argument fr.i
  LET vals == [fr.vals EXCEPT ![fr.i] = it.v]
      carrier == IF fr.inp.m = "v" \/ (fr.vm > 0 /\ fr.i >= fr.vm) THEN fr.ps ELSE it     \* path state after this argument
  IN CallNative(fr.name, fr.args, fr.i - 1, vals, [env |-> fr.env, inp |-> fr.inp, vm |-> fr.vm, ps |-> carrier, x |-> IF fr.i = 1 /\ fr.nav THEN it ELSE fr.x], K, S, f)

\* evaluate argument number i (counting down to 1), then call
CallNative(name, args, i, vals, c, K, S, f) ==
  IF i = 0 THEN
     \* all arguments known
     LET argv == [j \in 1..Len(args) |-> vals[j]]
         inp == c.inp
     IN
     IF name \in {"_index", "_slice"} THEN
        \* navigation: argument 1 is the subject (c.x = its item)
        Navigate(c.x, IF name = "_index" THEN argv[2] ELSE SliceKey(argv[3], argv[2]), K, S, f)
     ELSE IF name = "getpath" /\ inp.m = "p" THEN
        (IF Opq(inp.v) \/ DeepOpq(argv[1]) THEN Raise(OOM, S)
         ELSE LET r == Native("getpath", inp.v, argv)
                  ok == Intact(inp)
              IN IF r.e = OOM THEN Raise(OOM, S)
                 ELSE IF r.e # NoErr THEN Raise(r.e, S)
                 ELSE IF ok = "unk" THEN Raise(OOM, S)
                 ELSE IF ok = "no" THEN InvalidPath(S)
                 ELSE Cont(Item(r.o[1], "p", inp.p \o argv[1].a, r.o[1], "nav"), K, S, f))
     ELSE IF DeepOpq(inp.v) \/ \E j \in 1..Len(argv) : DeepOpq(argv[j]) THEN
          (IF name = "error" THEN Raise(ErrV(IF Len(argv) = 0 THEN inp.v ELSE argv[1]), S) ELSE Raise(OOM, S))
     ELSE LET r == Native(name, inp.v, argv) IN
          IF r.e = OOM THEN Raise(OOM, S)
          ELSE LET carrier == IF inp.m = "v" THEN inp ELSE c.ps
                   items == [j \in 1..Len(r.o) |-> Derived(carrier, r.o[j], IF IsContainer(r.o[j]) THEN (IF inp.m = "v" THEN "fresh" ELSE "unk") ELSE "fresh")]
                   rr == Each(items, 1, K, S, f)
               IN IF rr.e # NoErr \/ r.e = NoErr THEN rr ELSE RR(rr.o, r.e, rr.s)
  ELSE
  LET a == args[i]
      valueMode == c.vm > 0 /\ i >= c.vm
      \* the argument runs on the original input value, with the path state left by the previous argument
      base == IF c.inp.m = "v" THEN c.inp
              ELSE IF valueMode THEN AsValueMode(c.inp)
              ELSE IF c.ps.p = c.inp.p THEN c.inp
              ELSE Derived(c.ps, c.inp.v, "fresh")
      fr == [k |-> "arg", name |-> name, args |-> args, i |-> i, vals |-> vals, env |-> c.env, inp |-> c.inp,
             vm |-> c.vm, ps |-> c.ps, x |-> c.x, nav |-> name \in {"_index", "_slice"}]
  IN CASE a.a = "q" -> Run(a.q, base, c.env, <<fr>> \o K, S, f - 1)
       [] a.a = "t" -> RunTerm(a.t, a.n, base, c.env, <<fr>> \o K, S, f - 1)
       [] a.a = "null" -> EvalArgs(fr, Derived(base, Null, "fresh"), K, S, f)

NativeCall(name, args, vm, it, env, K, S, f) ==
  CallNative(name, args, Len(args), [j \in 1..Len(args) |-> Null],
             [env |-> env, inp |-> it, vm |-> vm, ps |-> it, x |-> it], K, S, f)

\* user-defined / prelude function: the closures are already bound under the bare parameter names;
\* $params are evaluated left to right (the first one is the outermost loop), in value mode
BindParams(fn, i, env, inp, K, S, f) ==
  IF i > Len(fn.ps) THEN Run(fn.body, inp, env, K, S, f - 1)
  ELSE IF fn.isvar[i] THEN
       LET j == fn.cb + i IN      \* the closure of parameter i (positional: duplicate names are legal)
       Run(env[j].body, AsValueMode(inp), env[j].env,
           <<[k |-> "par", fn |-> fn, i |-> i + 1, env |-> env, inp |-> inp, name |-> fn.ps[i]]>> \o K, S, f - 1)
  ELSE BindParams(fn, i + 1, env, inp, K, S, f)

Closures(fn, args, cenv) == [j \in 1..Len(args) |-> [b |-> "clo", n |-> fn.bare[j], body |-> args[j], env |-> cenv]]

-----------------------------------------------------------------------------
Run(q, it, env0, K, S, f) ==
  IF f <= 0 THEN Raise(OOM, S)
  ELSE
  LET env == IF Has(q, "FuncDefs") THEN AddDefs(env0, q.FuncDefs, 1) ELSE env0 IN
  IF Has(q, "Term") THEN RunTerm(q.Term, IF Has(q.Term, "SuffixList") THEN Len(q.Term.SuffixList) ELSE 0, it, env, K, S, f - 1)
  ELSE IF ~Has(q, "Op") THEN Raise(OOM, S)
  ELSE
  LET op == q.Op IN
  CASE op = "|" ->
         IF Has(q, "Patterns") THEN
            Run(q.Left, AsValueMode(it), env,
                <<[k |-> "bind", pats |-> q.Patterns, body |-> q.Right, env |-> env, inp |-> it]>> \o K, S, f - 1)
         ELSE Run(q.Left, it, env, <<[k |-> "q", q |-> q.Right, env |-> env]>> \o K, S, f - 1)
    [] op = "," ->
         LET r1 == Run(q.Left, it, env, K, S, f - 1) IN
         IF r1.e # NoErr THEN r1
         ELSE LET r2 == Run(q.Right, it, env, K, r1.s, f - 1) IN RR(r1.o \o r2.o, r2.e, r2.s)
    [] op = "//" ->
         LET c == f
             r1 == Run(q.Left, it, env, <<[k |-> "altf", c |-> c]>> \o K, SSet(S, c, False), f - 1)
         IN IF r1.e # NoErr THEN r1
            ELSE IF SGet(r1.s, c) = True THEN r1
            ELSE LET r2 == Run(q.Right, it, env, K, r1.s, f - 1) IN RR(r1.o \o r2.o, r2.e, r2.s)
    [] op = "and" -> Run(IfQ(q.Left, IfQ(q.Right, TermQ(ConstT(TRUE)), TermQ(ConstT(FALSE))), TermQ(ConstT(FALSE))), it, env, K, S, f - 1)
    [] op = "or" -> Run(IfQ(q.Left, TermQ(ConstT(TRUE)), IfQ(q.Right, TermQ(ConstT(TRUE)), TermQ(ConstT(FALSE)))), it, env, K, S, f - 1)
    [] op \in ArithOpsSyntax -> NativeCall(OpFunc(op), <<ArgQ(q.Left), ArgQ(q.Right)>>, 0, it, env, K, S, f - 1)
    [] op = "=" -> (IF it.m = "p" THEN Raise(OOM, S)
                    ELSE Run(TermQ(FuncT("_assign", <<q.Left, q.Right>>)), it, env, K, S, f - 1))
    [] op = "|=" -> (IF it.m = "p" THEN Raise(OOM, S)
                     ELSE Run(TermQ(FuncT("_modify", <<q.Left, q.Right>>)), it, env, K, S, f - 1))
    [] op \in UpdateOpsSyntax ->
         \* l op= r  ==  r as $x | _modify(l; op(.; $x))      (compileQueryUpdate)
         (IF it.m = "p" THEN Raise(OOM, S)
          ELSE Run(q.Right, it, env,
                   <<[k |-> "bind", pats |-> <<[k |-> "Pattern", Name |-> "$%0"]>>,
                      body |-> TermQ(FuncT("_modify", <<q.Left, TermQ(FuncT(OpFunc(op), <<IdentityQ, TermQ(VarT("$%0"))>>))>>)),
                      env |-> env, inp |-> it]>> \o K, S, f - 1))
    [] OTHER -> Raise(OOM, S)

\* term t with its first n suffixes
RunTerm(t, n, it, env, K, S, f) ==
  IF f <= 0 THEN Raise(OOM, S)
  ELSE IF n > 0 THEN
     LET s == t.SuffixList[n] IN
     IF Has(s, "Index") THEN
        LET x == s.Index IN
        IF Has(x, "Name") THEN RunTerm(t, n - 1, it, env, <<[k |-> "nav", key |-> Str(x.NameC)]>> \o K, S, f - 1)
        ELSE IF Has(x, "Str") THEN
             (IF ~Has(x.Str, "Queries") THEN RunTerm(t, n - 1, it, env, <<[k |-> "nav", key |-> Str(x.Str.StrC)]>> \o K, S, f - 1)
              ELSE NativeCall("_index", <<ArgT(t, n - 1), ArgQ(TermQ(StrT(x.Str)))>>, 2, it, env, K, S, f - 1))
        ELSE IF ~Has(x, "IsSlice") THEN NativeCall("_index", <<ArgT(t, n - 1), ArgQ(x.Start)>>, 2, it, env, K, S, f - 1)
        ELSE NativeCall("_slice", <<ArgT(t, n - 1), IF Has(x, "End") THEN ArgQ(x.End) ELSE ArgNull, IF Has(x, "Start") THEN ArgQ(x.Start) ELSE ArgNull>>, 2, it, env, K, S, f - 1)
     ELSE IF Has(s, "Iter") THEN RunTerm(t, n - 1, it, env, <<[k |-> "iter"]>> \o K, S, f - 1)
     ELSE IF Has(s, "Optional") THEN
        \* compileTermSuffix: T.x? == T | try .x ;  T?? and bare T? == try T
        LET prev == IF n > 1 THEN t.SuffixList[n - 1] ELSE [k |-> "none"]
            split == n > 1 /\ (Has(prev, "Index") \/ Has(prev, "Iter"))
        IN IF split THEN
              LET u == IF Has(prev, "Index") THEN [k |-> "Term", Type |-> "TermTypeIndex", Index |-> prev.Index]
                       ELSE [k |-> "Term", Type |-> "TermTypeIdentity", SuffixList |-> <<[k |-> "Suffix", Iter |-> TRUE]>>]
              IN RunTerm(t, n - 2, it, env, <<[k |-> "q", q |-> TryQ(u), env |-> env]>> \o K, S, f - 1)
           ELSE Run(TryQ(PrefixTerm(t, n - 1)), it, env, K, S, f - 1)
     ELSE Raise(OOM, S)
  ELSE
  LET ty == t.Type IN
  CASE ty = "TermTypeIdentity" -> Cont(it, K, S, f)
    [] ty = "TermTypeRecurse" -> Run(TermQ(FuncT("recurse", <<>>)), it, env, K, S, f - 1)
    [] ty = "TermTypeNull" -> Cont(Fresh(it, Null), K, S, f)
    [] ty = "TermTypeTrue" -> Cont(Fresh(it, True), K, S, f)
    [] ty = "TermTypeFalse" -> Cont(Fresh(it, False), K, S, f)
    [] ty = "TermTypeNumber" ->
         LET r == LitNumber(t.NumberC) IN
         IF r.k = "ok" THEN Cont(Fresh(it, r.v), K, S, f) ELSE Raise(OOM, S)
    [] ty = "TermTypeString" ->
         IF ~Has(t.Str, "Queries") THEN Cont(Fresh(it, Str(IF Has(t.Str, "StrC") THEN t.Str.StrC ELSE <<>>)), K, S, f)
         ELSE Run(InterpQ(t.Str.Queries, 1, IdentityQ, "tostring"), it, env, K, S, f - 1)
    [] ty = "TermTypeFormat" ->
         LET fn == FormatFunc(t.Format) IN
         IF fn = "?" THEN Raise(OOM, S)
         ELSE IF ~Has(t, "Str") THEN Run(TermQ(FuncT(fn, <<>>)), it, env, K, S, f - 1)
         ELSE IF ~Has(t.Str, "Queries") THEN Cont(Fresh(it, Str(IF Has(t.Str, "StrC") THEN t.Str.StrC ELSE <<>>)), K, S, f)
         ELSE Run(InterpQ(t.Str.Queries, 1, IdentityQ, fn), it, env, K, S, f - 1)
    [] ty = "TermTypeIndex" ->
         \* .x / .[e] / .[a:b] on the identity: same as a suffix on `.`
         RunTerm([k |-> "Term", Type |-> "TermTypeIdentity", SuffixList |-> <<[k |-> "Suffix", Index |-> t.Index]>>], 1, it, env, K, S, f - 1)
    [] ty = "TermTypeUnary" ->
         \* literal folding is unobservable: -1 == _negate(1)
         RunTerm(t.Unary.Term, IF Has(t.Unary.Term, "SuffixList") THEN Len(t.Unary.Term.SuffixList) ELSE 0, it, env,
                 <<[k |-> "q", q |-> TermQ(FuncT(IF t.Unary.Op = "-" THEN "_negate" ELSE "_plus", <<>>)), env |-> <<>>]>> \o K, S, f - 1)
    [] ty = "TermTypeQuery" -> Run(t.Query, it, env, K, S, f - 1)
    [] ty = "TermTypeArray" ->
         IF ~Has(t.Array, "Query") THEN Cont(Fresh(it, EmptyArr), K, S, f)
         ELSE LET r == Run(t.Array.Query, it, env, <<>>, S, f - 1) IN
              IF r.e # NoErr THEN RR(<<>>, r.e, r.s) ELSE Cont(Fresh(it, Arr(r.o)), K, r.s, f)
    [] ty = "TermTypeObject" ->
         IF ~Has(t.Object, "KeyVals") THEN Cont(Fresh(it, EmptyObj), K, S, f)
         ELSE ObjStep(t.Object.KeyVals, 1, <<>>, it, env, K, S, f - 1)
    [] ty = "TermTypeIf" ->
         Run(t.If.Cond, AsValueMode(it), env, <<[k |-> "ifc", node |-> t.If, env |-> env, inp |-> it]>> \o K, S, f - 1)
    [] ty = "TermTypeTry" ->
         LET r == Run(t.Try.Body, it, env, <<[k |-> "te"]>> \o K, S, f - 1) IN
         IF r.e.k = "w" THEN RR(r.o, r.e.e, r.s)
         ELSE IF r.e.k = "err" THEN
              (IF Has(t.Try, "Catch") THEN
                  LET rc == Run(t.Try.Catch, Derived(it, r.e.v, IF IsContainer(r.e.v) THEN "unk" ELSE "fresh"), env, K, r.s, f - 1)
                  IN RR(r.o \o rc.o, rc.e, rc.s)
               ELSE RR(r.o, NoErr, r.s))
         ELSE r
    [] ty = "TermTypeReduce" ->
         Run(t.Reduce.Start, it, env, <<[k |-> "red1", node |-> t.Reduce, env |-> env, inp |-> it]>> \o K, S, f - 1)
    [] ty = "TermTypeForeach" ->
         Run(t.Foreach.Start, it, env, <<[k |-> "fe1", node |-> t.Foreach, env |-> env, inp |-> it]>> \o K, S, f - 1)
    [] ty = "TermTypeLabel" ->
         LET id == f
             r == Run(t.Label.Body, it, Append(env, [b |-> "lbl", n |-> t.Label.Ident, id |-> id]), K, S, f - 1)
         IN IF r.e = Brk(id) THEN RR(r.o, NoErr, r.s) ELSE r
    [] ty = "TermTypeBreak" ->
         LET i == LookupLbl(env, t.Break, Len(env)) IN IF i = 0 THEN Raise(OOM, S) ELSE Raise(Brk(env[i].id), S)
    [] ty = "TermTypeFunc" ->
         LET name == t.Func.Name
             args == IF Has(t.Func, "Args") THEN t.Func.Args ELSE <<>>
             ar == Len(args)
         IN
         IF t.Func.NameC[1] = 36 THEN      \* $variable
            LET i == LookupVar(env, name, Len(env)) IN
            IF i = 0 THEN Raise(OOM, S)        \* $ENV, $__loc__, named arguments: not in this model
            ELSE LET v == env[i].v IN
                 IF it.m = "v" \/ ~IsContainer(v) THEN Cont(Fresh(it, v), K, S, f)
                 ELSE Cont(Derived(it, v, IF env[i].org = <<"at", it.p>> THEN "nav" ELSE IF env[i].org = NoOrg THEN "unk" ELSE "fresh"), K, S, f)
         ELSE
         LET i == LookupFn(env, name, ar, Len(env)) IN
         IF i # 0 THEN
            IF env[i].b = "clo" THEN Run(env[i].body, it, env[i].env, K, S, f - 1)
            ELSE BindParams([cb |-> i] @@ env[i], 1, SubSeq(env, 1, i) \o Closures(env[i], args, env), it, K, S, f - 1)
         ELSE
         LET pi == LookupPrelude(name, ar, 1) IN
         IF pi # 0 THEN
            LET fn == FnRec(Prelude[pi]) IN BindParams([cb |-> 0] @@ fn, 1, Closures(fn, args, env), it, K, S, f - 1)
         ELSE
         \* special forms and natives
         CASE name = "empty" /\ ar = 0 -> Done(S)
           [] name = "path" /\ ar = 1 ->
                Run(args[1], Item(it.v, "p", <<>>, it.v, "nav"), env, <<[k |-> "pe", cur |-> it]>> \o K, S, f - 1)
           [] name = "input" /\ ar = 0 ->
                (IF Len(S.inp) = 0 THEN Raise(ErrV(Str(CpOf(<<"b","r","e","a","k">>))), S)
                 ELSE Cont(Fresh(it, S.inp[1]), K, [S EXCEPT !.inp = Tail(S.inp)], f))
           [] name = "getpath" /\ ar = 1 -> NativeCall("getpath", <<ArgQ(args[1])>>, 1, it, env, K, S, f - 1)
           [] name \in {"debug", "stderr", "input_filename", "now", "localtime",
                        "strflocaltime", "env", "builtins", "modulemeta", "$__loc__", "input_line_number",
                        "ltrimstr/2"} -> Raise(OOM, S)
           [] OTHER -> NativeCall(name, [j \in 1..ar |-> ArgQ(args[j])], 0, it, env, K, S, f - 1)

\* --- top level ------------------------------------------------------------------------
Fuel == 300
\* outputs until the first uncaught error
Eval(q, v, vars, inputs) ==
  LET r == Run(q, VItem(v), vars, <<>>, InitStore(Fuel, inputs), Fuel) IN [o |-> r.o, e |-> r.e]
=============================================================================
