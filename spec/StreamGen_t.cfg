CONSTANTS
  MaxNodes = 4
  MaxDocs = 3
INIT Init
NEXT Next
CHECK_DEADLOCK FALSE
