------------------------------- MODULE ErrPos -------------------------------
(***************************************************************************)
(* C17 - reported error positions point at the offending byte.              *)
(*                                                                         *)
(* Part 1: the pure report function of cli/error.go                          *)
(*   Utf8 decoding, Width (go-runewidth on the test alphabet),               *)
(*   TrimLastInvalidRune, the stringScanner loop and GetLineByOffset         *)
(*   transcribed statement by statement (constants PRE = 48, CUT = 64).      *)
(* Part 2: texts of realistic size.  A text is a run-length encoded byte     *)
(*   sequence << [u |-> unit bytes, n |-> repetitions], ... >>; prefix        *)
(*   counts of LF bytes (what inputs.go counts) and of line terminators      *)
(*   (what the scanner of error.go sees), slices, and ReportAt = the report  *)
(*   for "contents = text[a, b), 1-based offset off" computed from a         *)
(*   neighbourhood of the offending byte (lemma ReportAtLemma, model         *)
(*   checked in ErrPosMC).                                                   *)
(* Part 3: what the code does with an input stream (cli/inputs.go):          *)
(*   SimFile  - getContents on a seekable input (re-reading in BUFSZ steps   *)
(*              with the 3/4 - 1/4 arithmetic);                              *)
(*   SimPipe  - the window of a non-seekable input: encoding/json's decoder  *)
(*              buffer (slide, grow by 2*cap+MINREAD, one Read per refill),  *)
(*              the tee buffer, the reset at THRESH after a value, the       *)
(*              offset / line bases.  The step machine of the same is in     *)
(*              ErrPosMC.tla; SimPipe is its deterministic run for a given   *)
(*              read schedule.                                               *)
(* Part 4: the property.  TrueLine / TrueReport (the ideal report: whole     *)
(*   input visible) and Correct (line is the true line, the quoted text is   *)
(*   a contiguous part of that line, the caret stands under the offending    *)
(*   byte).                                                                  *)
(*                                                                         *)
(* Positions are 0-based absolute byte positions unless said otherwise;      *)
(* "offset" is the 1-based count the Go code uses (bytes read up to and      *)
(* including the offending one).                                             *)
(***************************************************************************)
EXTENDS Integers, Sequences, FiniteSets

CONSTANTS PRE,      \* bytes kept before the offending byte in the excerpt   (48)
          CUT,      \* maximal excerpt length in bytes                      (64)
          NBH,      \* neighbourhood radius used by ReportAt      (>= PRE + CUT + 8)
          BUFSZ,    \* getContents: re-reading step of seekable input     (16384)
          THRESH,   \* jsonInputIter.Next: reset of the tee buffer        (16384)
          MINREAD,  \* encoding/json Decoder.refill: minRead                (512)
          FIXRA,    \* TRUE: "discard only what the decoder consumed" = the code since commit 8c982d6 (repair of D9);
                    \* FALSE: the former buf.Reset(), kept as a negative control of the model
          FIXCR     \* TRUE: the repair "count line terminators, not LF bytes" (D13)

LF == 10
CR == 13
Min(a, b) == IF a < b THEN a ELSE b
Max(a, b) == IF a > b THEN a ELSE b
Take(s, n) == SubSeq(s, 1, Min(n, Len(s)))
Drop(s, n) == SubSeq(s, n + 1, Len(s))

(***************************************************************************)
(* Part 1a: UTF-8 and terminal width                                         *)
(***************************************************************************)
IsCont(b) == b >= 128 /\ b <= 191
\* utf8.DecodeRune at 1-based index i of s: [ok, size, cp]; invalid -> size 1 (U+FFFD)
DecodeAt(s, i) ==
  LET b0 == s[i]
      n == Len(s) - i + 1     \* bytes available
      bad == [ok |-> FALSE, size |-> 1, cp |-> 65533]
  IN IF b0 < 128 THEN [ok |-> TRUE, size |-> 1, cp |-> b0]
     ELSE IF b0 >= 194 /\ b0 <= 223 THEN
       (IF n >= 2 /\ IsCont(s[i+1]) THEN [ok |-> TRUE, size |-> 2, cp |-> (b0 - 192) * 64 + (s[i+1] - 128)] ELSE bad)
     ELSE IF b0 >= 224 /\ b0 <= 239 THEN
       (IF n >= 3 /\ IsCont(s[i+1]) /\ IsCont(s[i+2])
           /\ (b0 = 224 => s[i+1] >= 160) /\ (b0 = 237 => s[i+1] <= 159)
        THEN [ok |-> TRUE, size |-> 3, cp |-> (b0 - 224) * 4096 + (s[i+1] - 128) * 64 + (s[i+2] - 128)] ELSE bad)
     ELSE IF b0 >= 240 /\ b0 <= 244 THEN
       (IF n >= 4 /\ IsCont(s[i+1]) /\ IsCont(s[i+2]) /\ IsCont(s[i+3])
           /\ (b0 = 240 => s[i+1] >= 144) /\ (b0 = 244 => s[i+1] <= 143)
        THEN [ok |-> TRUE, size |-> 4, cp |-> (b0 - 240) * 262144 + (s[i+1] - 128) * 4096 + (s[i+2] - 128) * 64 + (s[i+3] - 128)] ELSE bad)
     ELSE bad

\* go-runewidth (not East Asian): width of one code point of the test alphabet; -1 = not in the table
CpWidth(c) ==
  IF c < 32 \/ (c >= 127 /\ c <= 159) \/ c = 173 THEN 0
  ELSE IF c < 768 THEN 1
  ELSE IF c >= 768 /\ c <= 879 THEN 0                      \* combining diacritical marks
  ELSE IF c >= 12353 /\ c <= 12543 THEN 2                  \* hiragana, katakana
  ELSE IF c >= 19968 /\ c <= 40959 THEN 2                  \* CJK unified ideographs
  ELSE IF c >= 65281 /\ c <= 65376 THEN 2                  \* fullwidth forms
  ELSE IF c >= 128512 /\ c <= 128591 THEN 2                \* emoticons
  ELSE IF c = 9733 \/ c = 9734 \/ c = 65533 THEN 1         \* BLACK / WHITE STAR (ambiguous), U+FFFD
  ELSE -1

RECURSIVE WidthFrom(_, _, _)
\* runewidth.StringWidth: every grapheme cluster of the alphabet has one rune of non-zero width,
\* so the sum over clusters is the sum over runes.  A negative result: some rune is not in the table.
WidthFrom(s, i, acc) ==
  IF i > Len(s) THEN acc
  ELSE LET d == DecodeAt(s, i)
           w == CpWidth(d.cp)
       IN IF w < 0 THEN -1 ELSE WidthFrom(s, i + d.size, acc + w)
Width(s) == WidthFrom(s, 1, 0)

(***************************************************************************)
(* Part 1b: cli/error.go                                                     *)
(***************************************************************************)
RECURSIVE TrimLoop(_, _)
\* for i := len(s)-1; i >= 0 && i > len(s)-utf8.UTFMax; i-- { ... }   (i is the 0-based Go index)
TrimLoop(s, i) ==
  IF ~(i >= 0 /\ i > Len(s) - 4) THEN s
  ELSE LET b == s[i + 1] IN
       IF b < 128 THEN Take(s, i + 1)
       ELSE IF ~IsCont(b) THEN        \* utf8.RuneStart
         (IF ~DecodeAt(s, i + 1).ok THEN Take(s, i) ELSE s)
       ELSE TrimLoop(s, i - 1)
TrimLastInvalidRune(s) == TrimLoop(s, Len(s) - 1)

RECURSIVE IndexNewline(_, _)
\* first 1-based index >= i of a CR or LF byte in s; 0 if none
IndexNewline(s, i) == IF i > Len(s) THEN 0 ELSE IF s[i] = LF \/ s[i] = CR THEN i ELSE IndexNewline(s, i + 1)

\* stringScanner.next at scanner offset pos (0-based): [ok, line, start, pos']
ScanNext(s, pos) ==
  IF pos = Len(s) THEN [ok |-> FALSE, line |-> <<>>, start |-> 0, pos |-> pos]
  ELSE LET i == IndexNewline(s, pos + 1) IN
       IF i = 0 THEN [ok |-> TRUE, line |-> SubSeq(s, pos + 1, Len(s)), start |-> pos, pos |-> Len(s)]
       ELSE [ok |-> TRUE, line |-> SubSeq(s, pos + 1, i - 1), start |-> pos,
             pos |-> IF s[i] = CR /\ i < Len(s) /\ s[i + 1] = LF THEN i + 1 ELSE i]

RECURSIVE ScanLoop(_, _, _, _, _)
\* the for loop of getLineByOffset: [linestr, line, offset (relative to the start of linestr)]
ScanLoop(s, pos, line, linestr, offset) ==
  LET r == ScanNext(s, pos) IN
  IF ~r.ok THEN [linestr |-> linestr, line |-> line, offset |-> offset]
  ELSE IF r.pos >= offset THEN [linestr |-> r.line, line |-> line + 1, offset |-> offset - r.start]
  ELSE ScanLoop(s, r.pos, line + 1, r.line, offset)

\* the part of getLineByOffset after the loop: excerpt and caret column
Excerpt(linestr0, offset0) ==
  LET o1 == Min(Max(offset0 - 1, 0), Len(linestr0))
      skip == IF o1 > PRE THEN Len(TrimLastInvalidRune(Take(linestr0, o1 - PRE))) ELSE 0
      l2 == Drop(linestr0, skip)
      o2 == o1 - skip
      l3 == TrimLastInvalidRune(Take(l2, CUT))
      o3 == IF o2 < Len(l3) THEN Len(TrimLastInvalidRune(Take(l3, o2))) ELSE Len(l3)
  IN [ex |-> l3, col |-> Width(Take(l3, o3)), cb |-> o3]

\* getLineByOffset(str, offset): [line, ex (quoted text), col (caret, terminal cells), cb (caret, bytes)]
GetLineByOffset(s, offset) ==
  LET r == ScanLoop(s, 0, 0, <<>>, offset)
      e == Excerpt(r.linestr, r.offset)
  IN [line |-> r.line, ex |-> e.ex, col |-> e.col, cb |-> e.cb]

(***************************************************************************)
(* Part 2: run-length encoded texts                                          *)
(***************************************************************************)
SegLen(g) == Len(g.u) * g.n
RECURSIVE TLenFrom(_, _)
TLenFrom(t, i) == IF i > Len(t) THEN 0 ELSE SegLen(t[i]) + TLenFrom(t, i + 1)
TLen(t) == TLenFrom(t, 1)

RECURSIVE ByteAtFrom(_, _, _)
\* byte at 0-based position p, -1 outside
ByteAtFrom(t, i, p) ==
  IF i > Len(t) \/ p < 0 THEN -1
  ELSE IF p < SegLen(t[i]) THEN t[i].u[(p % Len(t[i].u)) + 1]
  ELSE ByteAtFrom(t, i + 1, p - SegLen(t[i]))
ByteAt(t, p) == ByteAtFrom(t, 1, p)

RECURSIVE SliceFrom(_, _, _, _)
\* bytes of positions [a, b) relative to segment i (explicit; use on short ranges only)
SliceFrom(t, i, a, b) ==
  IF i > Len(t) \/ a >= b THEN <<>>
  ELSE LET L == SegLen(t[i])
           m == Len(t[i].u) IN
       IF a >= L THEN SliceFrom(t, i + 1, a - L, b - L)
       ELSE LET e == Min(b, L) IN
            [k \in 1..(e - a) |-> t[i].u[((a + k - 1) % m) + 1]] \o SliceFrom(t, i + 1, 0, b - L)
Slice(t, a, b) == SliceFrom(t, 1, Max(a, 0), b)

\* is byte i (1-based) of unit u the last byte of a line terminator, the byte after the unit being f?
TermFinal(u, i, f) == u[i] = LF \/ (u[i] = CR /\ (IF i < Len(u) THEN u[i + 1] ELSE f) # LF)
RECURSIVE CntLF(_, _)
CntLF(u, k) == IF k = 0 THEN 0 ELSE CntLF(u, k - 1) + (IF u[k] = LF THEN 1 ELSE 0)
RECURSIVE CntTerm(_, _, _)
CntTerm(u, k, f) == IF k = 0 THEN 0 ELSE CntTerm(u, k - 1, f) + (IF TermFinal(u, k, f) THEN 1 ELSE 0)

FirstByte(t, i) == IF i > Len(t) THEN -1 ELSE t[i].u[1]

RECURSIVE PLFFrom(_, _, _)
\* number of LF bytes among the first p bytes (from segment i on)
PLFFrom(t, i, p) ==
  IF i > Len(t) \/ p <= 0 THEN 0
  ELSE LET g == t[i]
           m == Len(g.u)
           L == SegLen(g) IN
       IF p >= L THEN g.n * CntLF(g.u, m) + PLFFrom(t, i + 1, p - L)
       ELSE (p \div m) * CntLF(g.u, m) + CntLF(g.u, p % m)
PLF(t, p) == PLFFrom(t, 1, p)

RECURSIVE PTFrom(_, _, _)
\* number of positions q < p that end a line terminator of the text (LF, or CR not followed by LF)
PTFrom(t, i, p) ==
  IF i > Len(t) \/ p <= 0 THEN 0
  ELSE LET g == t[i]
           m == Len(g.u)
           L == SegLen(g)
           inner == CntTerm(g.u, m, g.u[1])              \* a repetition followed by another one
           last == CntTerm(g.u, m, FirstByte(t, i + 1))  \* the last repetition of the segment
       IN IF p >= L THEN (g.n - 1) * inner + last + PTFrom(t, i + 1, p - L)
          ELSE (p \div m) * inner + CntTerm(g.u, p % m, g.u[1])     \* p % m < m: the follower is inside the unit
PT(t, p) == PTFrom(t, 1, p)

\* ---- character (rune) indices, as go-yaml's error marks count them
RECURSIVE CntStarts(_, _)
CntStarts(u, k) == IF k = 0 THEN 0 ELSE CntStarts(u, k - 1) + (IF IsCont(u[k]) THEN 0 ELSE 1)
RECURSIVE StartIdx(_, _, _)
\* 0-based byte index in u of the rune start number j (0-based), scanning from 1-based index i; Len(u) if there is none
StartIdx(u, i, j) ==
  IF i > Len(u) THEN Len(u)
  ELSE IF ~IsCont(u[i]) THEN (IF j = 0 THEN i - 1 ELSE StartIdx(u, i + 1, j - 1))
  ELSE StartIdx(u, i + 1, j)
RECURSIVE ByteOfRuneFrom(_, _, _)
\* byte position of the character with index k (0-based); the length of the text if k is past the end
ByteOfRuneFrom(t, i, k) ==
  IF i > Len(t) THEN 0
  ELSE LET g == t[i]
           m == Len(g.u)
           rc == CntStarts(g.u, m)
       IN IF rc = 0 \/ k >= rc * g.n THEN SegLen(g) + ByteOfRuneFrom(t, i + 1, k - rc * g.n)
          ELSE (k \div rc) * m + StartIdx(g.u, 1, k % rc)
ByteOfRune(t, k) == ByteOfRuneFrom(t, 1, k)

\* line terminators of the byte string text[a, b) taken by itself (a CR at its very end is one)
TermsIn(t, a, b) ==
  IF a >= b THEN 0
  ELSE PT(t, b) - PT(t, a) + (IF ByteAt(t, b - 1) = CR /\ ByteAt(t, b) = LF THEN 1 ELSE 0)
\* lines the scanner of error.go finds in text[a, b)
LinesIn(t, a, b) ==
  IF a >= b THEN 0
  ELSE TermsIn(t, a, b) + (IF ByteAt(t, b - 1) \in {CR, LF} THEN 0 ELSE 1)

\* getLineByOffset(text[a, b), off) without expanding the text
ReportAt(t, a, b, off) ==
  LET n == b - a IN
  IF n <= 0 THEN [line |-> 0, ex |-> <<>>, col |-> 0, cb |-> 0]
  ELSE IF off <= 0 THEN
    LET r == GetLineByOffset(Slice(t, a, Min(b, a + CUT + 8)), off) IN [r EXCEPT !.line = 1]
  ELSE IF off > n THEN
    LET lo == Max(a, b - NBH)
        r == GetLineByOffset(Slice(t, lo, b), b - lo + 1)
    IN [r EXCEPT !.line = LinesIn(t, a, b)]
  ELSE
    LET p == a + off - 1
        lo == Max(a, p - NBH)
        hi == Min(b, p + NBH)
        r == GetLineByOffset(Slice(t, lo, hi), p - lo + 1)
    IN [r EXCEPT !.line = 1 + PT(t, p) - PT(t, a)]

ReportAtLemma(t, a, b, off) ==
  LET x == ReportAt(t, a, b, off)
      y == GetLineByOffset(Slice(t, a, b), off)
  IN x = y

(***************************************************************************)
(* Part 3: what cli/inputs.go hands to the report function                   *)
(*                                                                         *)
(* err = [k |-> "syntax", p |-> position of the offending byte]              *)
(*     | [k |-> "eof"]     (io.ErrUnexpectedEOF: the input ends inside a value)*)
(* A view is [a, b, off, lbase]: contents = text[a, b), the offset passed to *)
(* getLineByOffset, and the line base added to its line.                     *)
(***************************************************************************)
\* lines accounted for the discarded prefix text[0, a)
LineBase(t, a) == IF FIXCR THEN PT(t, a) ELSE PLF(t, a)

RECURSIVE FileSkip(_, _, _)
\* the for loop of getContents: [s |-> bytes skipped, off |-> remaining offset]
FileSkip(N, s, off) ==
  IF ~(off > (BUFSZ * 3) \div 4) THEN [s |-> s, off |-> off]
  ELSE LET n == Min(Min(BUFSZ, off - BUFSZ \div 4), N - s) IN
       IF n <= 0 THEN [s |-> s, off |-> off] ELSE FileSkip(N, s + n, off - n)

ViewFile(t, err) ==
  LET N == TLen(t)
      r == FileSkip(N, 0, IF err.k = "syntax" THEN err.p + 1 ELSE N)
      b == Min(r.s + BUFSZ, N)
  IN [a |-> r.s, b |-> b, off |-> IF err.k = "syntax" THEN r.off ELSE b - r.s + 1, lbase |-> LineBase(t, r.s)]

\* ---- values of the stream: runs [e |-> end of the first value, w |-> distance, n |-> count, d |-> 1 if the
\*      value needs the following byte to end (number, string, literal), 0 for ] and } ]
RECURSIVE NumComplete(_, _, _, _)
\* number of values the decoder can complete with the bytes [0, rp) (eof: no more bytes will come)
NumComplete(vals, i, rp, eof) ==
  IF i > Len(vals) THEN 0
  ELSE LET v == vals[i]
           need == IF eof THEN 0 ELSE v.d
           k == IF rp - v.e - need < 0 THEN 0 ELSE Min((rp - v.e - need) \div v.w + 1, v.n)
       IN k + (IF k = v.n THEN NumComplete(vals, i + 1, rp, eof) ELSE 0)
RECURSIVE NumVals(_, _)
NumVals(vals, i) == IF i > Len(vals) THEN 0 ELSE vals[i].n + NumVals(vals, i + 1)
RECURSIVE ValEndFrom(_, _, _)
\* end position of the k-th value (k >= 1)
ValEndFrom(vals, i, k) == IF k <= vals[i].n THEN vals[i].e + (k - 1) * vals[i].w ELSE ValEndFrom(vals, i + 1, k - vals[i].n)
ValEnd(vals, k) == IF k = 0 THEN 0 ELSE ValEndFrom(vals, 1, k)

\* bytes a Read at position rp can get: up to the next boundary of the write schedule
RECURSIVE NextBoundary(_, _, _, _)
NextBoundary(cb, i, rp, N) == IF i > Len(cb) THEN N ELSE IF cb[i] > rp THEN Min(cb[i], N) ELSE NextBoundary(cb, i + 1, rp, N)

\* Decoder.refill of encoding/json followed by the Read through the tee reader.
\* d = [rp, bs, cap, ws, k, eof]: read position (= end of the decoder buffer and of the tee buffer),
\* start of the decoder buffer, its capacity, start of the tee buffer (window), values returned, EOF seen.
Refill(d, scanp, n) ==
  LET bs == IF scanp > d.bs THEN scanp ELSE d.bs             \* slide down the consumed data
      len == d.rp - bs
      cap == IF d.cap - len < MINREAD THEN 2 * d.cap + MINREAD ELSE d.cap
  IN [d EXCEPT !.bs = bs, !.cap = cap, !.rp = d.rp + n, !.eof = (n = 0)]
ReadRequest(d, scanp) ==
  LET bs == IF scanp > d.bs THEN scanp ELSE d.bs
      len == d.rp - bs
      cap == IF d.cap - len < MINREAD THEN 2 * d.cap + MINREAD ELSE d.cap
  IN cap - len

\* jsonInputIter.Next after a value: the reset of the window
AfterValue(d, vend) ==
  IF d.rp - d.ws >= THRESH THEN [d EXCEPT !.ws = IF FIXRA THEN vend ELSE d.rp] ELSE d

InitDec == [rp |-> 0, bs |-> 0, cap |-> 0, ws |-> 0, k |-> 0, eof |-> FALSE]

RECURSIVE PipeRun(_, _, _, _, _, _)
\* deterministic run for the write schedule cb (a Read returns what is in the pipe, at most what is asked for)
PipeRun(d, vals, nv, err, cb, N) ==
  LET done == NumComplete(vals, 1, d.rp, d.eof) IN
  IF d.k < nv /\ done > d.k THEN                      \* Decode returns value k+1; Next() checks the window
    IF d.rp - d.ws < THRESH
    THEN PipeRun([d EXCEPT !.k = done], vals, nv, err, cb, N)     \* no reset while the buffered values are returned
    ELSE PipeRun(AfterValue([d EXCEPT !.k = d.k + 1], ValEnd(vals, d.k + 1)), vals, nv, err, cb, N)
  ELSE IF d.k = nv /\ err.k = "syntax" /\ err.p < d.rp THEN d       \* the scanner steps on the offending byte
  ELSE IF d.eof THEN d                                              \* io.ErrUnexpectedEOF (or a clean EOF)
  ELSE LET scanp == ValEnd(vals, d.k)
           n == Min(ReadRequest(d, scanp), NextBoundary(cb, 1, d.rp, N) - d.rp)
       IN PipeRun(Refill(d, scanp, n), vals, nv, err, cb, N)

ViewOfDec(t, d, err) ==
  [a |-> d.ws, b |-> d.rp,
   off |-> IF err.k = "syntax" THEN err.p + 1 - d.ws ELSE d.rp - d.ws + 1,
   lbase |-> LineBase(t, d.ws)]

ViewPipe(t, vals, err, cb) == ViewOfDec(t, PipeRun(InitDec, vals, NumVals(vals, 1), err, cb, TLen(t)), err)

\* jsonParseError.Error: what is printed for a view
ReportOfView(t, v) ==
  LET r == ReportAt(t, v.a, v.b, v.off) IN [r EXCEPT !.line = r.line + v.lbase]

(***************************************************************************)
(* Part 4: the property                                                      *)
(***************************************************************************)
\* the position the caret has to stand at: the offending byte, or the end of its line if that
\* byte is (part of) the line terminator; for an unexpected EOF the end of the last line
LastLineEnd(t) ==
  LET N == TLen(t) IN
  IF N >= 2 /\ ByteAt(t, N - 2) = CR /\ ByteAt(t, N - 1) = LF THEN N - 2
  ELSE IF N >= 1 /\ ByteAt(t, N - 1) \in {CR, LF} THEN N - 1 ELSE N
Anchor(t, err) ==
  IF err.k = "eof" THEN LastLineEnd(t)
  ELSE IF ByteAt(t, err.p) = LF /\ ByteAt(t, err.p - 1) = CR THEN err.p - 1 ELSE err.p
TrueLine(t, err) == IF err.k = "eof" THEN LinesIn(t, 0, TLen(t)) ELSE 1 + PT(t, err.p)
\* the ideal report: the whole input is visible
TrueReport(t, err) == ReportAt(t, 0, TLen(t), IF err.k = "eof" THEN TLen(t) + 1 ELSE err.p + 1)

\* obs = [line, ex, col]: the quoted text is a piece of the line of the offending byte and the caret
\* (counted in terminal cells) stands under that byte
Placed(t, err, obs) ==
  LET A == Anchor(t, err)
      E == obs.ex
  IN /\ \A i \in 1..Len(E) : E[i] # CR /\ E[i] # LF
     /\ \E k \in 0..Len(E) :
          /\ Width(Take(E, k)) = obs.col
          /\ (k < Len(E) => ~IsCont(E[k + 1]))
          /\ A - k >= 0
          /\ Slice(t, A - k, A - k + Len(E)) = E
          \* the offending byte is shown - unless it starts a multi-byte character that the window holds
          \* only in part (trimLastInvalidRune drops it; cli/test.yaml pins excerpts cut at the read position)
          /\ (err.k = "syntax" /\ ByteAt(t, err.p) \notin {CR, LF} /\ ByteAt(t, err.p) < 128 => k < Len(E))

Correct(t, err, obs) == obs.line = TrueLine(t, err) /\ Placed(t, err, obs)

\* the scenario classes in which the code is known to leave the property (narrow, structural)
\* D9: the offending position is not inside the window any more (discarded read-ahead)
InDiscarded(v, err, N) == IF err.k = "syntax" THEN err.p < v.a ELSE v.a >= N /\ N > 0
\* D13: a lone CR terminator lies in the discarded / skipped prefix
LoneCRSkipped(t, v) == PT(t, v.a) # PLF(t, v.a)
\* the observable signature of D13: everything right except the line number, which falls short by at most
\* the number of lone-CR terminators before the offending position
LoneCRBefore(t, err) == LET A == Anchor(t, err) IN PT(t, A) - PLF(t, A)
D13Signature(t, err, obs) ==
  /\ Placed(t, err, obs)
  /\ obs.line < TrueLine(t, err)
  /\ obs.line >= TrueLine(t, err) - LoneCRBefore(t, err)
=============================================================================
