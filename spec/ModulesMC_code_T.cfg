CONSTANTS MaxMain = 3 MaxSub1 = 1 MaxSub2 = 1 Mode = "code"
INIT Init
NEXT Next
CHECK_DEADLOCK FALSE
INVARIANTS NoFailure Structure CodeOnlyAdds
