------------------------------ MODULE GenCore ------------------------------
(***************************************************************************)
(* Enumeration of jq programs of the core grammar (C01) as SOURCE TEXT.     *)
(* Depth 0 = the atoms; depth 1 = every constructor applied to every tuple  *)
(* of atoms (exhaustive); depth 2 = constructors over depth-1 programs,      *)
(* sampled with TLC's seeded RandomElement.  Every program is wrapped in a   *)
(* context that binds $x, a label $l, a nullary def f, a filter-parameter    *)
(* def g(p) and a value-parameter def h($a), so that the atoms referring to  *)
(* them are closed.  The real parser turns the text into the AST that        *)
(* JqSem.tla evaluates.                                                      *)
(***************************************************************************)
EXTENDS Integers, Sequences, FiniteSets, TLC, Json, IOUtils, SequencesExt

Atoms == {".", ".a", ".[0]", ".[]", "1", "null", "\"a\"", "empty", "error", "$x", "break $l", "f", "[]", "{}", "(1,2)", ".b"}

Un(a) == { "[" \o a \o "]",
           "(" \o a \o ")?",
           "try (" \o a \o ")",
           "-(" \o a \o ")",
           "(" \o a \o ")[]",
           "(" \o a \o ").a",
           "(" \o a \o ")[1:]",
           "{a: " \o a \o "}",
           "{(" \o a \o "): 1}",
           "\"x\\(" \o a \o ")\"",
           "g(" \o a \o ")",
           "h(" \o a \o ")",
           "(label $m | " \o a \o ", break $m, 3)",
           "(def k: " \o a \o "; k, k)",
           "(" \o a \o " | not)",
           "first(" \o a \o ")",
           "(" \o a \o " as [$p, $q] | [$p, $q])",
           "(" \o a \o " as {a: $p} | $p)",
           "(" \o a \o " as [$p] ?// $p | [$p])",
           "(" \o a \o " as {a: $p} ?// [$p] ?// $q | [$p, $q])",
           "(" \o a \o " as {$a, b: [$q]} ?// $r | [$a, $q, $r])",
           "(({a: 1, b: 2}, [3], {a: 4, b: [5]}) as {$a, b: [$q]} ?// [$r] ?// $s | [$a, $q, $r, $s], " \o a \o ")",
           "([{b: 1}, [2], 3, {a: [4]}][] as [$p] ?// {b: $q} ?// {a: [$r]} | [$p, $q, $r], " \o a \o ")",
           "(.[]? as [$p, $q] ?// {a: $r} ?// $s | [$p, $q, $r, $s] | " \o a \o ")" }

Bin(a, b) == { a \o " | " \o b,
               "(" \o a \o ", " \o b \o ")",
               "(" \o a \o " // " \o b \o ")",
               "(" \o a \o " and " \o b \o ")",
               "(" \o a \o " or " \o b \o ")",
               "(" \o a \o " + " \o b \o ")",
               "(" \o a \o " - " \o b \o ")",
               "(" \o a \o " * " \o b \o ")",
               "(" \o a \o " == " \o b \o ")",
               "(" \o a \o " < " \o b \o ")",
               "(" \o a \o ")[" \o b \o "]",
               "try (" \o a \o ") catch (" \o b \o ")",
               "if " \o a \o " then " \o b \o " end",
               "(" \o a \o " as $y | " \o b \o ", $y)",
               "{a: " \o a \o ", b: " \o b \o "}",
               "[" \o a \o " | " \o b \o "]",
               "(def k(p): " \o a \o " | p; k(" \o b \o "))",
               "(def k($p): " \o a \o ", $p; k(" \o b \o "))",
               "limit(" \o a \o "; " \o b \o ")",
               "(" \o a \o " as [$p] ?// $p | " \o b \o ", $p)" }

Ter(a, b, c) == { "if " \o a \o " then " \o b \o " else " \o c \o " end",
                  "reduce (" \o a \o ") as $y (" \o b \o "; " \o c \o ")",
                  "foreach (" \o a \o ") as $y (" \o b \o "; " \o c \o ")",
                  "(" \o a \o ")[" \o b \o ":" \o c \o "]",
                  "(def k(p; $q): " \o a \o "; k(" \o b \o "; " \o c \o "))" }

Wrap(p) == "2 as $x | def f: (.a?, 1); def g(p): [p, p]; def h($a): $a, .; label $l | " \o p

Depth1 == Atoms \cup UNION {Un(a) : a \in Atoms} \cup UNION {Bin(a, b) : a \in Atoms, b \in Atoms}
TerAtoms == {".", ".[]", "1", "empty", "error", "$x", "(1,2)", ".a"}
Depth1T == UNION {Ter(a, b, c) : a \in TerAtoms, b \in TerAtoms, c \in TerAtoms}

\* seeded samples of depth 2
Pick(Sx) == RandomElement(Sx)
Sample2(n) == [i \in 1..n |->
                 LET k == RandomElement(1..5) IN
                 CASE k = 1 -> Pick(Un(Pick(Depth1)))
                   [] k \in {2, 3} -> Pick(Bin(Pick(Depth1), Pick(Depth1)))
                   [] k = 4 -> Pick(Bin(Pick(Atoms), Pick(Depth1T)))
                   [] OTHER -> Pick(Ter(Pick(Depth1), Pick(Atoms), Pick(Depth1)))]

N2 == atoi(IOEnv.VERIF_N2)
AllD1 == SetToSeq(Depth1 \cup Depth1T)
S2 == Sample2(N2)
Out == [i \in 1..Len(AllD1) |-> [d |-> 1, src |-> Wrap(AllD1[i])]]
         \o [i \in 1..N2 |-> [d |-> 2, src |-> Wrap(S2[i])]]

VARIABLE done
Init == done = ndJsonSerialize(IOEnv.VERIF_OUT, Out)
Next == UNCHANGED done
=============================================================================
