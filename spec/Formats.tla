------------------------------- MODULE Formats -------------------------------
(***************************************************************************)
(* The text codecs among the native builtins of gojq (func.go):             *)
(*   @html @uri @urid @csv @tsv @sh @base64 @base64d  (funcToHTML ...       *)
(*   funcToBase64d, formatJoin),  fromjson (encoding/json's grammar with    *)
(*   UseNumber),  and the part of _match (funcMatch) whose regular          *)
(*   expression is a LITERAL - no metacharacter - so that its meaning does  *)
(*   not depend on the regexp engine: leftmost non-overlapping occurrences, *)
(*   positions in code points.                                              *)
(* Strings are code point sequences; codecs that work on bytes go through   *)
(* Utf8.tla.  A result that is not valid UTF-8 (a Go string the value model *)
(* cannot carry) is "oom".                                                  *)
(* Results: [k |-> "ok", s |-> cps] / [k |-> "err"] / [k |-> "oom"].        *)
(***************************************************************************)
EXTENDS Text
U8 == INSTANCE Utf8

FOk(s) == [k |-> "ok", s |-> s]
FErr == [k |-> "err"]
FOom == [k |-> "oom"]

\* concatenation of f[1..n] (f a sequence of sequences), balanced
Cat(f) == U8!CatR(f, 1, Len(f))

\* funcToString: strings as they are, everything else as compact JSON
ToStr(x) == IF x.t = "str" THEN [ok |-> TRUE, s |-> x.s] ELSE JsonText(x)

UpHex(n) == IF n < 10 THEN 48 + n ELSE 55 + n
IsAlnum(c) == (c >= 48 /\ c <= 57) \/ (c >= 65 /\ c <= 90) \/ (c >= 97 /\ c <= 122)

\* ---- @html: strings.NewReplacer over single characters
HtmlCp(c) == CASE c = 60 -> <<38, 108, 116, 59>>                 \* &lt;
               [] c = 62 -> <<38, 103, 116, 59>>                 \* &gt;
               [] c = 38 -> <<38, 97, 109, 112, 59>>             \* &amp;
               [] c = 39 -> <<38, 97, 112, 111, 115, 59>>        \* &apos;
               [] c = 34 -> <<38, 113, 117, 111, 116, 59>>       \* &quot;
               [] OTHER -> <<c>>
ToHtml(s) == Cat([i \in 1..Len(s) |-> HtmlCp(s[i])])

\* ---- @uri: url.QueryEscape with "+" (the escape of a space) rewritten to %20
UriByte(b) == IF IsAlnum(b) \/ b \in {45, 95, 46, 126} THEN <<b>> ELSE <<37, UpHex(b \div 16), UpHex(b % 16)>>
ToUri(s) == LET bs == U8!BytesOf(s) IN Cat([i \in 1..Len(bs) |-> UriByte(bs[i])])

\* ---- @urid: "+" kept literally, %XX decoded, anything else after % is an error
HexVal(c) == IF c >= 48 /\ c <= 57 THEN c - 48 ELSE IF c >= 97 /\ c <= 102 THEN c - 87 ELSE IF c >= 65 /\ c <= 70 THEN c - 55 ELSE -1
RECURSIVE UridBytes(_, _)
\* [ok, b]: the decoded bytes of s from position i
UridBytes(s, i) ==
  IF i > Len(s) THEN [ok |-> TRUE, b |-> <<>>]
  ELSE IF s[i] # 37 THEN LET r == UridBytes(s, i + 1) IN [ok |-> r.ok, b |-> U8!EncodeRune(s[i]) \o r.b]
  ELSE IF i + 2 > Len(s) \/ HexVal(s[i + 1]) < 0 \/ HexVal(s[i + 2]) < 0 THEN [ok |-> FALSE, b |-> <<>>]
  ELSE LET r == UridBytes(s, i + 3) IN [ok |-> r.ok, b |-> <<HexVal(s[i + 1]) * 16 + HexVal(s[i + 2])>> \o r.b]
OfBytes(bs) == IF U8!ValidUtf8(bs) THEN FOk(U8!Runes(bs)) ELSE FOom
ToUrid(s) == LET r == UridBytes(s, 1) IN IF ~r.ok THEN FErr ELSE OfBytes(r.b)

\* ---- @csv @tsv @sh: formatJoin
CsvCp(c) == IF c = 34 THEN <<34, 34>> ELSE IF c = 0 THEN <<92, 48>> ELSE <<c>>
TsvCp(c) == CASE c = 9 -> <<92, 116>> [] c = 13 -> <<92, 114>> [] c = 10 -> <<92, 110>> [] c = 92 -> <<92, 92>> [] c = 0 -> <<92, 48>> [] OTHER -> <<c>>
ShCp(c) == IF c = 39 THEN <<39, 92, 39, 39>> ELSE IF c = 0 THEN <<92, 48>> ELSE <<c>>
EscField(typ, s) ==
  CASE typ = "csv" -> <<34>> \o Cat([i \in 1..Len(s) |-> CsvCp(s[i])]) \o <<34>>
    [] typ = "tsv" -> Cat([i \in 1..Len(s) |-> TsvCp(s[i])])
    [] OTHER -> <<39>> \o Cat([i \in 1..Len(s) |-> ShCp(s[i])]) \o <<39>>
SepOf(typ) == CASE typ = "csv" -> <<44>> [] typ = "tsv" -> <<9>> [] OTHER -> <<32>>
FormatJoin(typ, x) ==
  LET v == IF typ = "sh" /\ x.t # "arr" THEN Arr(<<x>>) ELSE x IN
  IF v.t # "arr" THEN FErr
  ELSE IF \E i \in 1..Len(v.a) : v.a[i].t \in {"arr", "obj"} THEN FErr
  ELSE IF \E i \in 1..Len(v.a) : v.a[i].t # "str" /\ ~JsonText(v.a[i]).ok THEN FOom
  ELSE LET field(e) == IF e.t = "str" THEN EscField(typ, e.s)
                       ELSE IF JsonText(e).s = NullText /\ typ # "sh" THEN <<>>         \* whatever prints as null (null, NaN) is an empty field
                       ELSE JsonText(e).s
       IN FOk(Cat([i \in 1..(2 * Len(v.a)) |-> IF i % 2 = 1 THEN (IF i = 1 THEN <<>> ELSE SepOf(typ)) ELSE field(v.a[i \div 2])]))

\* ---- @base64 / @base64d
B64Char(n) == CASE n < 26 -> 65 + n [] n < 52 -> 97 + (n - 26) [] n < 62 -> 48 + (n - 52) [] n = 62 -> 43 [] OTHER -> 47
B64Val(c) == CASE c >= 65 /\ c <= 90 -> c - 65 [] c >= 97 /\ c <= 122 -> c - 71 [] c >= 48 /\ c <= 57 -> c + 4 [] c = 43 -> 62 [] c = 47 -> 63 [] OTHER -> -1
ToBase64(s) ==
  LET bs == U8!BytesOf(s)
      n == Len(bs)
      g == (n + 2) \div 3
      at(i) == IF i <= n THEN bs[i] ELSE 0
      grp(k) == LET a == at(3 * k - 2)  b == at(3 * k - 1)  c == at(3 * k)  have == n - (3 * k - 3) IN     \* have = bytes in this group (1..3 for the last)
                <<B64Char(a \div 4), B64Char((a % 4) * 16 + b \div 16),
                  IF have >= 2 THEN B64Char((b % 16) * 4 + c \div 64) ELSE 61,
                  IF have >= 3 THEN B64Char(c % 64) ELSE 61>>
  IN Cat([k \in 1..g |-> grp(k)])
\* base64.RawStdEncoding.DecodeString of the text before the first "=": CR and LF are skipped, a single
\* trailing character is an error, trailing bits are not checked
ToBase64d(s) ==
  LET cutAt == IF \E i \in 1..Len(s) : s[i] = 61 THEN CHOOSE i \in 1..Len(s) : s[i] = 61 /\ \A j \in 1..(i - 1) : s[j] # 61 ELSE Len(s) + 1
      t == SelectSeq(SubSeq(s, 1, cutAt - 1), LAMBDA c : c # 10 /\ c # 13)
      n == Len(t)
  IN IF \E i \in 1..n : B64Val(t[i]) < 0 THEN FErr
     ELSE IF n % 4 = 1 THEN FErr
     ELSE LET v(i) == B64Val(t[i])
              full == n \div 4
              rem == n % 4
              grp(k) == LET a == v(4 * k - 3)  b == v(4 * k - 2)  c == v(4 * k - 1)  d == v(4 * k) IN
                        <<a * 4 + b \div 16, (b % 16) * 16 + c \div 4, (c % 4) * 64 + d>>
              last == IF rem = 0 THEN <<>>
                      ELSE LET a == v(4 * full + 1)  b == v(4 * full + 2) IN
                           IF rem = 2 THEN <<a * 4 + b \div 16>>
                           ELSE LET c == v(4 * full + 3) IN <<a * 4 + b \div 16, (b % 16) * 16 + c \div 4>>
          IN OfBytes(Cat([k \in 1..full |-> grp(k)]) \o last)

\* ---- fromjson: the JSON grammar of encoding/json (numbers kept exactly: UseNumber)
PBad == [k |-> "bad"]
POom == [k |-> "oom"]
POk(v, i) == [k |-> "ok", v |-> v, i |-> i]
IsWs(c) == c \in {32, 9, 10, 13}
RECURSIVE SkipWs(_, _)
SkipWs(s, i) == IF i <= Len(s) /\ IsWs(s[i]) THEN SkipWs(s, i + 1) ELSE i
Hex4(s, i) == IF i + 3 > Len(s) THEN -1
              ELSE LET a == HexVal(s[i])  b == HexVal(s[i + 1])  c == HexVal(s[i + 2])  d == HexVal(s[i + 3]) IN
                   IF a < 0 \/ b < 0 \/ c < 0 \/ d < 0 THEN -1 ELSE a * 4096 + b * 256 + c * 16 + d
IsHiSur(h) == h >= 55296 /\ h <= 56319
IsLoSur(h) == h >= 56320 /\ h <= 57343
RECURSIVE PStr(_, _, _)
\* s[i..] just after the opening quote
PStr(s, i, acc) ==
  IF i > Len(s) THEN PBad
  ELSE LET c == s[i] IN
       IF c = 34 THEN POk(Str(acc), i + 1)
       ELSE IF c < 32 THEN PBad
       ELSE IF c # 92 THEN PStr(s, i + 1, Append(acc, c))
       ELSE IF i + 1 > Len(s) THEN PBad
       ELSE LET e == s[i + 1] IN
            CASE e \in {34, 92, 47} -> PStr(s, i + 2, Append(acc, e))
              [] e = 98 -> PStr(s, i + 2, Append(acc, 8))
              [] e = 102 -> PStr(s, i + 2, Append(acc, 12))
              [] e = 110 -> PStr(s, i + 2, Append(acc, 10))
              [] e = 114 -> PStr(s, i + 2, Append(acc, 13))
              [] e = 116 -> PStr(s, i + 2, Append(acc, 9))
              [] e = 117 ->
                   LET h == Hex4(s, i + 2) IN
                   IF h < 0 THEN PBad
                   ELSE IF IsHiSur(h) /\ i + 7 <= Len(s) /\ s[i + 6] = 92 /\ s[i + 7] = 117 /\ Hex4(s, i + 8) >= 0 /\ IsLoSur(Hex4(s, i + 8))
                        THEN PStr(s, i + 12, Append(acc, 65536 + (h - 55296) * 1024 + (Hex4(s, i + 8) - 56320)))
                   ELSE IF IsHiSur(h) \/ IsLoSur(h) THEN PStr(s, i + 6, Append(acc, 65533))
                   ELSE PStr(s, i + 6, Append(acc, h))
              [] OTHER -> PBad

\* extent of a JSON number starting at i (0 = not a number): -?(0|[1-9][0-9]*)(\.[0-9]+)?([eE][+-]?[0-9]+)?
NumEnd(s, i) ==
  LET n == Len(s)
      a == IF i <= n /\ s[i] = 45 THEN i + 1 ELSE i
  IN IF a > n \/ ~IsDigitCp(s[a]) THEN 0
     ELSE LET b == IF s[a] = 48 THEN a + 1 ELSE TakeDigits(s, a)
              c == IF b <= n /\ s[b] = 46 THEN (IF b + 1 <= n /\ IsDigitCp(s[b + 1]) THEN TakeDigits(s, b + 1) ELSE 0) ELSE b
          IN IF c = 0 THEN 0
             ELSE IF c <= n /\ s[c] \in {101, 69} THEN
                    LET d == IF c + 1 <= n /\ s[c + 1] \in {43, 45} THEN c + 2 ELSE c + 1 IN
                    IF d <= n /\ IsDigitCp(s[d]) THEN TakeDigits(s, d) ELSE 0
             ELSE c
Lit(s, i, w) == i + Len(w) - 1 <= Len(s) /\ SubSeq(s, i, i + Len(w) - 1) = w
RECURSIVE PVal(_, _), PArr(_, _, _), PObj(_, _, _)
\* a value at position i (white space already skipped)
PVal(s, i) ==
  IF i > Len(s) THEN PBad
  ELSE LET c == s[i] IN
       CASE c = 34 -> PStr(s, i + 1, <<>>)
         [] c = 91 -> LET j == SkipWs(s, i + 1) IN IF j <= Len(s) /\ s[j] = 93 THEN POk(Arr(<<>>), j + 1) ELSE PArr(s, j, <<>>)
         [] c = 123 -> LET j == SkipWs(s, i + 1) IN IF j <= Len(s) /\ s[j] = 125 THEN POk(Obj(<<>>), j + 1) ELSE PObj(s, j, <<>>)
         [] c = 116 -> (IF Lit(s, i, <<116, 114, 117, 101>>) THEN POk(True, i + 4) ELSE PBad)
         [] c = 102 -> (IF Lit(s, i, <<102, 97, 108, 115, 101>>) THEN POk(False, i + 5) ELSE PBad)
         [] c = 110 -> (IF Lit(s, i, <<110, 117, 108, 108>>) THEN POk(Null, i + 4) ELSE PBad)
         [] OTHER -> LET e == NumEnd(s, i) IN
                     IF e = 0 THEN PBad
                     ELSE LET r == ParseNumber(SubSeq(s, i, e - 1)) IN
                          CASE r.k = "ok" -> POk(r.v, e) [] r.k = "bad" -> PBad [] OTHER -> POom
\* elements: s[i..] is at the start of an element
PArr(s, i, acc) ==
  LET r == PVal(s, i) IN
  IF r.k # "ok" THEN r
  ELSE LET j == SkipWs(s, r.i) IN
       IF j > Len(s) THEN PBad
       ELSE IF s[j] = 93 THEN POk(Arr(Append(acc, r.v)), j + 1)
       ELSE IF s[j] = 44 THEN PArr(s, SkipWs(s, j + 1), Append(acc, r.v))
       ELSE PBad
\* members: s[i..] is at the start of a key; acc is the object so far (later keys win)
PObj(s, i, acc) ==
  IF i > Len(s) \/ s[i] # 34 THEN PBad
  ELSE LET k == PStr(s, i + 1, <<>>) IN
       IF k.k # "ok" THEN k
       ELSE LET j == SkipWs(s, k.i) IN
            IF j > Len(s) \/ s[j] # 58 THEN PBad
            ELSE LET r == PVal(s, SkipWs(s, j + 1)) IN
                 IF r.k # "ok" THEN r
                 ELSE LET m == SkipWs(s, r.i)  o == ObjPut(acc, k.v.s, r.v) IN
                      IF m > Len(s) THEN PBad
                      ELSE IF s[m] = 125 THEN POk(Obj(o), m + 1)
                      ELSE IF s[m] = 44 THEN PObj(s, SkipWs(s, m + 1), o)
                      ELSE PBad
\* the whole text must be one value
ParseJson(s) ==
  LET r == PVal(s, SkipWs(s, 1)) IN
  IF r.k = "bad" THEN PBad
  ELSE IF r.k = "oom" THEN POom        \* a syntax error further right would win: undecided
  ELSE IF SkipWs(s, r.i) <= Len(s) THEN PBad ELSE r

\* ---- _match with a literal regular expression
IsMetaCp(c) == c \in {92, 46, 43, 42, 63, 40, 41, 124, 91, 93, 123, 125, 94, 36}
IsLetterish(c) == (c >= 65 /\ c <= 90) \/ (c >= 97 /\ c <= 122) \/ c >= 128
LiteralRe(re) == \A i \in 1..Len(re) : ~IsMetaCp(re[i])
\* start positions (1-based) of the leftmost non-overlapping occurrences of re in s from position `from`;
\* the empty expression matches before every code point and at the end
RECURSIVE Occ(_, _, _)
Occ(s, re, from) ==
  IF Len(re) = 0 THEN [i \in 1..(Len(s) + 1) |-> i]
  ELSE LET p == FindCp(s, re, from) IN IF p = 0 THEN <<>> ELSE <<p>> \o Occ(s, re, p + Len(re))
=============================================================================
