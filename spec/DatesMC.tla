------------------------------ MODULE DatesMC ------------------------------
(* C13 on the specification: gmtime|mktime and todate|fromdate are the identity on whole seconds for EVERY day of the
   years 1..9999 (at second 0, 43200 and 86399 of the day), the civil conversion is a bijection that is monotone, months and
   days are in range, weekdays advance by one.  One TLC state per block of Block days. *)
EXTENDS Dates, TLC
CONSTANTS Block, Stride
VARIABLE b
NBlocks == (MaxDay - MinDay) \div Block + 1
Init == b \in {x \in 0..(NBlocks - 1) : x % Stride = 0}
Next == UNCHANGED b
DayOK(d) ==
  LET c == CivilFromDays(d) IN
  /\ DaysFromCivil(c.y, c.m, c.d) = d
  /\ c.y \in 1..9999 /\ c.m \in 1..12 /\ c.d \in 1..31
  /\ Weekday(d) = (Weekday(d - 1) + 1) % 7
  /\ YearDay(d) \in 0..365
  /\ (d > MinDay => LET p == CivilFromDays(d - 1) IN
                    \/ (p.y = c.y /\ p.m = c.m /\ p.d + 1 = c.d)
                    \/ (c.d = 1 /\ ((p.y = c.y /\ p.m + 1 = c.m) \/ (p.y + 1 = c.y /\ p.m = 12 /\ c.m = 1)) /\ p.d \in 28..31))
  /\ \A sod \in {0, 43200, 86399} :
       /\ Mktime(Gmtime(d, sod)) = [days |-> d, sod |-> sod]
       /\ ParseDate(DateText(d, sod)) = [days |-> d, sod |-> sod]
Laws == \A k \in 0..(Block - 1) : LET d == MinDay + b * Block + k IN d > MaxDay \/ DayOK(d)
=============================================================================
