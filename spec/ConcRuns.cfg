CONSTANTS G = 3 SharedInput = TRUE SweepWritesShared = FALSE
CONSTANT Prog <- ProgDef
SPECIFICATION Spec
INVARIANTS NoRace NoForeignWrite CacheSound
PROPERTY Termination
