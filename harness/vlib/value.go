// Package vlib holds what every harness sub-command shares: the tagged JSON
// encoding of values (DESIGN 2.3), the generic encoder of the gojq.Query AST,
// and ndjson helpers. It is deliberately generic: all semantics live in the
// TLA+ specification.
package vlib

import (
	"encoding/json"
	"fmt"
	"math"
	"math/big"
	"sort"
	"strconv"
	"strings"
	"unicode/utf8"
)

// M is a JSON object.
type M = map[string]any

var lim30 = big.NewInt(1 << 30)

func encBig(x *big.Int) any {
	if x.CmpAbs(lim30) < 0 {
		return M{"t": "num", "n": int(x.Int64())}
	}
	ds := []any{}
	for _, c := range new(big.Int).Abs(x).String() {
		ds = append(ds, int(c-'0'))
	}
	return M{"t": "big", "neg": x.Sign() < 0, "d": ds}
}

// EncFloat encodes a float64 as the mathematical value the model uses:
// integers exactly, small dyadic rationals as fractions, anything else opaque.
func EncFloat(v float64) any {
	switch {
	case math.IsNaN(v):
		return M{"t": "float", "f": "nan"}
	case math.IsInf(v, 1):
		return M{"t": "float", "f": "inf"}
	case math.IsInf(v, -1):
		return M{"t": "float", "f": "-inf"}
	}
	if v == math.Trunc(v) && math.Abs(v) < 1<<53 {
		return encBig(big.NewInt(int64(v)))
	}
	if math.Abs(v) < 1<<24 {
		for d := 2; d <= 4096; d *= 2 {
			if n := v * float64(d); n == math.Trunc(n) {
				return M{"t": "frac", "n": int(n), "d": d}
			}
		}
	}
	m := M{"t": "float", "f": strconv.FormatFloat(v, 'g', -1, 64)}
	if math.Abs(v) >= 1<<53 {
		// every double of this magnitude is an integer: its exact value (what toInt / % / comparisons see) goes with it
		z, _ := new(big.Float).SetFloat64(v).Int(nil)
		ds := []any{}
		for _, c := range new(big.Int).Abs(z).String() {
			ds = append(ds, int(c-'0'))
		}
		m["iz"] = M{"neg": z.Sign() < 0, "d": ds}
	}
	if FloatText != nil {
		m["txt"] = Cps(FloatText(v)) // a logged primitive: the text the LIBRARY's encoder writes for this double
	}
	return m
}

// FloatText, when set by a harness, is recorded with every double the value model does not spell.
var FloatText func(float64) string

// EncStr encodes a Go string: code points, or raw bytes if not valid UTF-8.
func EncStr(s string) any {
	if !utf8.ValidString(s) {
		bs := []any{}
		for i := 0; i < len(s); i++ {
			bs = append(bs, int(s[i]))
		}
		return M{"t": "bytes", "b": bs}
	}
	return M{"t": "str", "s": Cps(s)}
}

// Cps returns the code points of s as a JSON array.
func Cps(s string) []any {
	cs := []any{}
	for _, r := range s {
		cs = append(cs, int(r))
	}
	return cs
}

// EncVal encodes a gojq value as tagged JSON. Numbers are normalised to the
// mathematical value; the Go representation is not recorded.
func EncVal(v any) any {
	switch v := v.(type) {
	case nil:
		return M{"t": "null"}
	case bool:
		return M{"t": "bool", "b": v}
	case int:
		return encBig(big.NewInt(int64(v)))
	case float64:
		return EncFloat(v)
	case *big.Int:
		return encBig(v)
	case json.Number:
		s := v.String()
		if !strings.ContainsAny(s, ".eE") {
			if x, ok := new(big.Int).SetString(s, 10); ok {
				return encBig(x)
			}
		}
		f, err := strconv.ParseFloat(s, 64)
		if err != nil && !math.IsInf(f, 0) {
			return M{"t": "other", "x": "json.Number:" + s}
		}
		return EncFloat(f)
	case string:
		return EncStr(v)
	case []any:
		xs := []any{}
		for _, x := range v {
			xs = append(xs, EncVal(x))
		}
		return M{"t": "arr", "a": xs}
	case map[string]any:
		ks := make([]string, 0, len(v))
		for k := range v {
			ks = append(ks, k)
		}
		sort.Strings(ks)
		xs := []any{}
		tag := "obj"
		for _, k := range ks {
			ek := EncStr(k).(M)
			if ek["t"] != "str" {
				tag = "objbytes" // a key that is not valid UTF-8: Go-side only, never compared with the model
				xs = append(xs, []any{ek["b"], EncVal(v[k])})
				continue
			}
			xs = append(xs, []any{ek["s"], EncVal(v[k])})
		}
		return M{"t": tag, "o": xs}
	default:
		return M{"t": "other", "x": fmt.Sprintf("%T", v)}
	}
}

// Rep selects the Go representation DecVal gives to numbers.
type Rep int

// Representations.
const (
	RepNative Rep = iota // int where it fits, *big.Int beyond, float64 for fractions
	RepBig               // every integer as *big.Int
	RepJSON              // every number as json.Number
	RepFloat             // integers below 2^53 as float64
	RepNil               // native numbers; EMPTY arrays and objects as nil slices / nil maps (values of the supported types []any and map[string]any)
)

// DecVal decodes a tagged value (as decoded by encoding/json) into a gojq value.
func DecVal(x any, rep Rep) any {
	m := x.(map[string]any)
	switch m["t"] {
	case "null":
		return nil
	case "bool":
		return m["b"].(bool)
	case "num", "big":
		var z *big.Int
		if m["t"] == "num" {
			z = big.NewInt(int64(m["n"].(float64)))
		} else {
			var sb strings.Builder
			if m["neg"].(bool) {
				sb.WriteByte('-')
			}
			for _, d := range m["d"].([]any) {
				sb.WriteByte(byte('0' + int(d.(float64))))
			}
			z, _ = new(big.Int).SetString(sb.String(), 10)
		}
		switch rep {
		case RepBig:
			return z
		case RepJSON:
			return json.Number(z.String())
		case RepFloat:
			if z.IsInt64() && z.CmpAbs(big.NewInt(1<<53)) < 0 {
				return float64(z.Int64())
			}
		}
		if z.IsInt64() {
			return int(z.Int64())
		}
		return z
	case "frac":
		f := m["n"].(float64) / m["d"].(float64)
		if rep == RepJSON {
			return json.Number(strconv.FormatFloat(f, 'f', -1, 64))
		}
		return f
	case "float":
		switch m["f"] {
		case "nan":
			return math.NaN()
		case "inf":
			return math.Inf(1)
		case "-inf":
			return math.Inf(-1)
		}
		f, _ := strconv.ParseFloat(m["f"].(string), 64)
		if rep == RepJSON {
			return json.Number(m["f"].(string))
		}
		return f
	case "str":
		var sb strings.Builder
		for _, c := range m["s"].([]any) {
			sb.WriteRune(rune(c.(float64)))
		}
		return sb.String()
	case "bytes":
		bs := []byte{}
		for _, c := range m["b"].([]any) {
			bs = append(bs, byte(c.(float64)))
		}
		return string(bs)
	case "arr":
		if rep == RepNil && len(m["a"].([]any)) == 0 {
			return []any(nil)
		}
		xs := []any{}
		for _, e := range m["a"].([]any) {
			xs = append(xs, DecVal(e, rep))
		}
		return xs
	case "obj":
		if rep == RepNil && len(m["o"].([]any)) == 0 {
			return map[string]any(nil)
		}
		o := map[string]any{}
		for _, kv := range m["o"].([]any) {
			p := kv.([]any)
			var sb strings.Builder
			for _, c := range p[0].([]any) {
				sb.WriteRune(rune(c.(float64)))
			}
			o[sb.String()] = DecVal(p[1], rep)
		}
		return o
	}
	panic(fmt.Sprintf("DecVal: unknown tag %v", m["t"]))
}

// FromJSONText parses ordinary JSON text into a gojq value (ints where exact).
func FromJSONText(s string) (any, error) {
	dec := json.NewDecoder(strings.NewReader(s))
	dec.UseNumber()
	var v any
	if err := dec.Decode(&v); err != nil {
		return nil, err
	}
	return normJSON(v), nil
}

func normJSON(v any) any {
	switch v := v.(type) {
	case json.Number:
		s := v.String()
		if !strings.ContainsAny(s, ".eE") {
			if x, ok := new(big.Int).SetString(s, 10); ok {
				if x.IsInt64() {
					return int(x.Int64())
				}
				return x
			}
		}
		f, _ := strconv.ParseFloat(s, 64)
		return f
	case []any:
		for i := range v {
			v[i] = normJSON(v[i])
		}
		return v
	case map[string]any:
		for k := range v {
			v[k] = normJSON(v[k])
		}
		return v
	}
	return v
}
