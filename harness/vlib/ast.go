package vlib

import (
	"fmt"
	"reflect"
	"strings"

	"github.com/itchyny/gojq"
)

// EncAST encodes a parsed query generically, by reflection over the
// implementation's own AST types: every struct becomes an object with a "k"
// field naming its Go type and one field per non-zero Go field; every string
// field X is doubled by XC holding its code points; Operator and TermType are
// written by name. FuncDef.Args is additionally given as ArgsBare / ArgsVar
// (parameter name without the leading '$', and whether it had one), since the
// specification language cannot take strings apart.
func EncAST(q *gojq.Query) any {
	return encNode(reflect.ValueOf(q))
}

func encNode(v reflect.Value) any {
	switch v.Kind() {
	case reflect.Ptr:
		if v.IsNil() {
			return nil
		}
		return encNode(v.Elem())
	case reflect.Struct:
		t := v.Type()
		m := M{"k": t.Name()}
		for i := 0; i < t.NumField(); i++ {
			f, fv := t.Field(i), v.Field(i)
			if !f.IsExported() {
				continue
			}
			if fv.Kind() == reflect.String && fv.Type().Name() == "string" {
				s := fv.String()
				if s == "" && !(t.Name() == "String" && f.Name == "Str") {
					continue
				}
				m[f.Name] = s
				m[f.Name+"C"] = Cps(s)
				continue
			}
			if fv.IsZero() {
				continue
			}
			if x := encNode(fv); x != nil {
				m[f.Name] = x
			}
		}
		if t.Name() == "FuncDef" {
			if args, ok := m["Args"].([]any); ok {
				bare, isvar := []any{}, []any{}
				for _, a := range args {
					s := a.(string)
					bare = append(bare, strings.TrimPrefix(s, "$"))
					isvar = append(isvar, strings.HasPrefix(s, "$"))
				}
				m["ArgsBare"], m["ArgsVar"] = bare, isvar
			}
		}
		return m
	case reflect.Slice:
		if v.Len() == 0 {
			return nil
		}
		xs := make([]any, v.Len())
		for i := range xs {
			xs[i] = encNode(v.Index(i))
		}
		return xs
	case reflect.String:
		return v.String()
	case reflect.Bool:
		return v.Bool()
	case reflect.Int:
		switch x := v.Interface().(type) {
		case gojq.Operator:
			return x.String()
		case gojq.TermType:
			return strings.TrimPrefix(x.GoString(), "gojq.")
		}
		return int(v.Int())
	}
	panic(fmt.Sprintf("EncAST: unsupported kind %s (%s): the AST gained a field shape the encoder does not know", v.Kind(), v.Type()))
}

// EncCode converts the dumped bytecode into the JSON shape VM.tla reads:
// {"op":..., "v":{"val":V} | {"n":k} | {"id","ix"} | {"id","cnt","argc"} | {"native","argc"}}.
func EncCode(dump []gojq.VerifInstr) []any {
	out := make([]any, len(dump))
	for i, in := range dump {
		m := M{"op": in.Op}
		switch {
		case in.HasVal:
			m["v"] = M{"val": EncVal(in.Val)}
		case in.N != nil:
			m["v"] = M{"n": *in.N}
		case in.Var != nil:
			m["v"] = M{"id": in.Var[0], "ix": in.Var[1]}
		case in.Scope != nil:
			m["v"] = M{"id": in.Scope[0], "cnt": in.Scope[1], "argc": in.Scope[2]}
		case in.Native != "":
			m["v"] = M{"native": in.Native, "argc": in.Argc}
		}
		out[i] = m
	}
	return out
}
