package main

// C18 (modules): generic sandbox runner. A case describes a directory tree
// (files with their text, empty directories), a working directory, a HOME, a
// place for a hard link of the real gojq binary (so that $ORIGIN points into
// the sandbox) and an argument vector; optionally the same query for the
// library API (gojq.NewModuleLoader + gojq.Compile). No module semantics here:
// the texts are rendered by the check, the verdict is TLC's.

import (
	"context"
	"encoding/json"
	"flag"
	"fmt"
	"io"
	"os"
	"os/exec"
	"path/filepath"
	"time"

	"github.com/itchyny/gojq"
)

func init() {
	subcmds["c18run"] = cmdC18Run
}

type c18File struct {
	P   string `json:"p"`
	C   string `json:"c"`
	Dir bool   `json:"dir"`
}

type c18Lib struct {
	Paths []string `json:"paths"`
	Query string   `json:"query"`
}

type c18Case struct {
	ID    any       `json:"id"`
	Dir   string    `json:"dir"` // sandbox directory name under -root
	Files []c18File `json:"files"`
	Cwd   string    `json:"cwd"`
	Home  string    `json:"home"`
	Exe   string    `json:"exe"` // relative path of the hard link of the binary
	Args  []string  `json:"args"`
	Lib   *c18Lib   `json:"lib"`
}

type c18LibResult struct {
	Out   []string `json:"out"`
	Err   string   `json:"err,omitempty"`
	Stage string   `json:"stage,omitempty"` // parse | compile | run
	Panic string   `json:"panic,omitempty"`
}

type c18Result struct {
	ID    any           `json:"id"`
	Out   string        `json:"out"`
	Err   string        `json:"err"`
	Rc    int           `json:"rc"`
	Tool  string        `json:"tool,omitempty"` // harness trouble (not a behaviour of gojq)
	Long  bool          `json:"long,omitempty"`
	LibRs *c18LibResult `json:"lib,omitempty"`
}

func c18CopyFile(src, dst string) error {
	in, err := os.Open(src)
	if err != nil {
		return err
	}
	defer in.Close()
	out, err := os.OpenFile(dst, os.O_CREATE|os.O_WRONLY|os.O_TRUNC, 0o755)
	if err != nil {
		return err
	}
	if _, err := io.Copy(out, in); err != nil {
		out.Close()
		return err
	}
	return out.Close()
}

func c18Lib1(l *c18Lib) (res *c18LibResult) {
	res = &c18LibResult{Out: []string{}}
	defer func() {
		if e := recover(); e != nil {
			res.Panic = fmt.Sprint(e)
		}
	}()
	q, err := gojq.Parse(l.Query)
	if err != nil {
		res.Err, res.Stage = err.Error(), "parse"
		return
	}
	code, err := gojq.Compile(q, gojq.WithModuleLoader(gojq.NewModuleLoader(l.Paths)))
	if err != nil {
		res.Err, res.Stage = err.Error(), "compile"
		return
	}
	ctx, cancel := context.WithTimeout(context.Background(), 5*time.Second)
	defer cancel()
	it := code.RunWithContext(ctx, nil)
	for {
		v, ok := it.Next()
		if !ok {
			return
		}
		if err, ok := v.(error); ok {
			res.Err, res.Stage = err.Error(), "run"
			return
		}
		b, err := gojq.Marshal(v)
		if err != nil {
			res.Err, res.Stage = err.Error(), "run"
			return
		}
		res.Out = append(res.Out, string(b))
		if len(res.Out) > 100 {
			res.Err, res.Stage = "too many outputs", "run"
			return
		}
	}
}

func c18Run1(c *c18Case, root, gojqBin string, keep bool, budget time.Duration) (res c18Result) {
	res.ID = c.ID
	base := filepath.Join(root, c.Dir)
	fail := func(err error) c18Result {
		res.Tool = err.Error()
		return res
	}
	if err := os.MkdirAll(base, 0o755); err != nil {
		return fail(err)
	}
	if !keep {
		defer os.RemoveAll(base)
	}
	for _, d := range []string{c.Cwd, c.Home, filepath.Dir(c.Exe)} {
		if err := os.MkdirAll(filepath.Join(base, d), 0o755); err != nil {
			return fail(err)
		}
	}
	for _, f := range c.Files {
		p := filepath.Join(base, f.P)
		if f.Dir {
			if err := os.MkdirAll(p, 0o755); err != nil {
				return fail(err)
			}
			continue
		}
		if err := os.MkdirAll(filepath.Dir(p), 0o755); err != nil {
			return fail(err)
		}
		if err := os.WriteFile(p, []byte(f.C), 0o644); err != nil {
			return fail(err)
		}
	}
	exe := filepath.Join(base, c.Exe)
	if err := os.Link(gojqBin, exe); err != nil {
		if err := c18CopyFile(gojqBin, exe); err != nil {
			return fail(err)
		}
	}
	ctx, cancel := context.WithTimeout(context.Background(), budget)
	defer cancel()
	cmd := exec.CommandContext(ctx, exe, c.Args...)
	cmd.Dir = filepath.Join(base, c.Cwd)
	cmd.Env = []string{"HOME=" + filepath.Join(base, c.Home), "PATH=/usr/bin:/bin", "LANG=C"}
	so, se := &capBuffer{max: 1 << 20}, &capBuffer{max: 1 << 20}
	cmd.Stdout, cmd.Stderr = so, se
	err := cmd.Run()
	res.Out, res.Err = so.String(), se.String()
	if len(res.Out) > 1<<16 {
		res.Out = res.Out[:1<<16]
	}
	if len(res.Err) > 1<<14 {
		res.Err = res.Err[:1<<14]
	}
	if ctx.Err() != nil {
		res.Long = true
		res.Rc = -1
	} else if err != nil {
		if ee, ok := err.(*exec.ExitError); ok {
			res.Rc = ee.ExitCode()
		} else {
			return fail(err)
		}
	}
	if c.Lib != nil {
		res.LibRs = c18Lib1(c.Lib)
	}
	return res
}

// cmdC18Run: cases ndjson -> results ndjson (same order).
func cmdC18Run(args []string) error {
	fs := flag.NewFlagSet("c18run", flag.ExitOnError)
	in := fs.String("in", "", "cases ndjson")
	out := fs.String("out", "", "results ndjson")
	root := fs.String("root", "", "directory under which the sandboxes are created")
	bin := fs.String("gojq", "", "the real gojq binary")
	keep := fs.Bool("keep", false, "keep the sandboxes")
	budget := fs.Duration("budget", 20*time.Second, "time per process")
	par := fs.Int("j", 8, "parallel workers")
	fs.Parse(args)
	if *root == "" || *bin == "" {
		return fmt.Errorf("c18run: -root and -gojq are required")
	}
	var cases []*c18Case
	if err := readNDJSON(*in, func(m map[string]any) error {
		b, _ := json.Marshal(m)
		c := &c18Case{}
		if err := json.Unmarshal(b, c); err != nil {
			return err
		}
		cases = append(cases, c)
		return nil
	}); err != nil {
		return err
	}
	recs := make([]c18Result, len(cases))
	parallel(len(cases), *par, func(i int) { recs[i] = c18Run1(cases[i], *root, *bin, *keep, *budget) })
	w, err := newNDWriter(*out)
	if err != nil {
		return err
	}
	for _, r := range recs {
		if err := w.write(r); err != nil {
			return err
		}
	}
	return w.close()
}
