package main

import (
	"crypto/sha1"
	"encoding/hex"
	"encoding/json"
	"flag"
	"fmt"
	"time"

	"github.com/itchyny/gojq"

	"verif/harness/vlib"
)

func init() { subcmds["isolate"] = cmdIsolate }

func digest(v any) string {
	b, _ := json.Marshal(vlib.EncVal(v))
	h := sha1.Sum(b)
	return hex.EncodeToString(h[:6])
}

func deepCopy(v any) any {
	switch v := v.(type) {
	case []any:
		w := make([]any, len(v))
		for i, x := range v {
			w[i] = deepCopy(x)
		}
		return w
	case map[string]any:
		w := make(map[string]any, len(v))
		for k, x := range v {
			w[k] = deepCopy(x)
		}
		return w
	}
	return v
}

// spare gives every array 3 elements of spare capacity (filled with a sentinel that must never become visible).
func spare(v any) any {
	switch v := v.(type) {
	case []any:
		w := make([]any, len(v), len(v)+3)
		for i, x := range v {
			w[i] = spare(x)
		}
		full := w[:cap(w)]
		for i := len(v); i < len(full); i++ {
			full[i] = "SENTINEL"
		}
		return w
	case map[string]any:
		w := make(map[string]any, len(v))
		for k, x := range v {
			w[k] = spare(x)
		}
		return w
	}
	return v
}

// buildInput builds the run input from the model value under an aliasing mode:
//   plain   the value itself
//   spare   every array has spare capacity
//   shared  {"a": X, "b": X, "c": [X, X]}: one Go object reachable three times
//   slices  {"p": B[0:3], "q": B[2:5], "r": B, "x": X}: overlapping sub-slices of one backing array B (6 copies of X's elements)
func buildInput(mv any, mode string) any {
	x := vlib.DecVal(mv, vlib.RepNative)
	switch mode {
	case "spare":
		return spare(x)
	case "shared":
		return map[string]any{"a": x, "b": x, "c": []any{x, x}}
	case "slices":
		b := []any{0, x, 2, 3, x, 5}
		return map[string]any{"p": b[0:3], "q": b[2:5], "r": b, "x": x}
	}
	return x
}

// cmdIsolate: cases {id, src, input, mode, vars: [V]} -> history of events with digests (see Runs.tla).
func cmdIsolate(args []string) error {
	fs := flag.NewFlagSet("isolate", flag.ExitOnError)
	in := fs.String("in", "", "cases")
	out := fs.String("out", "", "trace")
	fs.Parse(args)
	run := func(c map[string]any, beat func()) map[string]any {
		rec := vlib.M{"id": c["id"], "src": c["src"], "mode": c["mode"], "input": c["input"]}
		q, err := gojq.Parse(c["src"].(string))
		if err != nil {
			rec["perr"] = err.Error()
			return rec
		}
		names, vals := []string{}, []any{}
		if vs, ok := c["vars"].([]any); ok {
			for i, v := range vs {
				names = append(names, fmt.Sprintf("$v%d", i))
				vals = append(vals, vlib.DecVal(v, vlib.RepNative))
			}
		}
		code, err := gojq.Compile(q, gojq.WithVariables(names))
		if err != nil {
			rec["cerr"] = err.Error()
			return rec
		}
		mode, _ := c["mode"].(string)
		input := buildInput(c["input"], mode)
		other := vlib.DecVal(c["other"], vlib.RepNative)
		consts := gojq.VerifConstants(code)
		in0, vars0, consts0 := digest(input), digest(vals), digest(consts)
		events := []any{vlib.M{"e": "init", "in": in0, "vars": vars0, "consts": consts0}}
		defer func() {
			if e := recover(); e != nil {
				rec["panic"] = fmt.Sprint(e)
				rec["events"] = events
			}
		}()
		// history: same object, same object again, a fresh equal copy, another input, the same object once more
		plan := []struct {
			kind string
			v    any
		}{{"same", input}, {"same", input}, {"copy", deepCopy(input)}, {"other", other}, {"same", input}}
		for r, p := range plan {
			beat()
			events = append(events, vlib.M{"e": "start", "run": r + 1, "obj": p.kind})
			ctx := newGuardCtx(0, 200000, time.Second)
			it := code.RunWithContext(ctx, p.v, vals...)
			emitted := []any{}
			for len(emitted) < 40 {
				v, ok := it.Next()
				if !ok {
					break
				}
				if err, ok := v.(error); ok {
					if ctx.budget {
						// a budget of the harness (polls, wall clock, process heap) ended this run, not the library: the history is outside the claim
						rec["budget"] = true
					}
					events = append(events, vlib.M{"e": "error", "run": r + 1, "msg": fmt.Sprintf("%T", err)})
					break
				}
				emitted = append(emitted, v)
				b, _ := gojq.Marshal(v)
				events = append(events, vlib.M{"e": "emit", "run": r + 1, "i": len(emitted), "h": digest(v), "ser": digest(string(b))})
				cur := make([]string, len(emitted))
				for i, x := range emitted {
					cur[i] = digest(x)
				}
				events = append(events, vlib.M{"e": "check", "run": r + 1, "in": digest(input), "vars": digest(vals), "consts": digest(consts), "emitted": cur})
			}
			cur := make([]string, len(emitted))
			for i, x := range emitted {
				cur[i] = digest(x)
			}
			events = append(events, vlib.M{"e": "finish", "run": r + 1, "in": digest(input), "vars": digest(vals), "consts": digest(consts), "emitted": cur})
		}
		rec["events"] = events
		return rec
	}
	return runBatch(*in, *out, 8, 8*time.Second, run, func(c map[string]any) map[string]any {
		return vlib.M{"id": c["id"], "src": c["src"], "hang": true}
	})
}
