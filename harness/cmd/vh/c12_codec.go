package main

// C12 (serialisation): the byte-level value codec of spec/Encoder.tla and the
// translation of a value into a jq program that makes the real command build it.
// Nothing here knows how values are to be written: it only moves values and
// bytes across the boundary.

import (
	"encoding/json"
	"fmt"
	"math"
	"math/big"
	"sort"
	"strconv"
	"strings"
)

type c12M = map[string]any

func c12Bytes(s string) []any {
	bs := make([]any, len(s))
	for i := 0; i < len(s); i++ {
		bs[i] = int(s[i])
	}
	return bs
}

func c12FromBytes(x any) string {
	xs, _ := x.([]any)
	bs := make([]byte, len(xs))
	for i, b := range xs {
		switch b := b.(type) {
		case float64:
			bs[i] = byte(b)
		case int:
			bs[i] = byte(b)
		}
	}
	return string(bs)
}

func c12Digits(s string) []any {
	ds := make([]any, len(s))
	for i := 0; i < len(s); i++ {
		ds[i] = int(s[i] - '0')
	}
	return ds
}

func c12BigInt(x *big.Int) any {
	return c12M{"t": "int", "neg": x.Sign() < 0, "d": c12Digits(new(big.Int).Abs(x).String())}
}

// c12Float: the shortest decimal that identifies the double, d1.d2..dn * 10^e,
// taken from strconv (the leaf the specification does not model).
func c12Float(f float64) any {
	switch {
	case math.IsNaN(f):
		return c12M{"t": "flt", "k": "nan"}
	case math.IsInf(f, 1):
		return c12M{"t": "flt", "k": "inf"}
	case math.IsInf(f, -1):
		return c12M{"t": "flt", "k": "-inf"}
	}
	s := strconv.FormatFloat(f, 'e', -1, 64) // [-]d[.ddd]e(+|-)dd
	neg := strings.HasPrefix(s, "-")
	s = strings.TrimPrefix(s, "-")
	mant, exp, _ := strings.Cut(s, "e")
	e, _ := strconv.Atoi(exp)
	return c12M{"t": "flt", "k": "fin", "neg": neg, "d": c12Digits(strings.ReplaceAll(mant, ".", "")), "e": e}
}

// c12Depth: nesting depth of containers.
func c12Depth(v any) int {
	d := 0
	switch v := v.(type) {
	case []any:
		for _, x := range v {
			d = max(d, c12Depth(x))
		}
		return d + 1
	case map[string]any:
		for _, x := range v {
			d = max(d, c12Depth(x))
		}
		return d + 1
	}
	return 0
}

// c12Flat appends the nodes of v in preorder: containers as {"t", "n", "keys"} followed by their children.
// (The JSON reader of the model checker refuses documents nested deeper than 255.)
func c12Flat(v any, toks *[]any) {
	switch v := v.(type) {
	case []any:
		*toks = append(*toks, c12M{"t": "arr", "n": len(v)})
		for _, x := range v {
			c12Flat(x, toks)
		}
	case map[string]any:
		ks := make([]string, 0, len(v))
		for k := range v {
			ks = append(ks, k)
		}
		sort.Strings(ks)
		keys := make([]any, len(ks))
		for i, k := range ks {
			keys[i] = c12Bytes(k)
		}
		*toks = append(*toks, c12M{"t": "obj", "n": len(v), "keys": keys})
		for _, k := range ks {
			c12Flat(v[k], toks)
		}
	default:
		*toks = append(*toks, c12EncNested(v))
	}
}

// c12Enc encodes a value emitted by gojq, keeping the Go representation of numbers apart;
// deeply nested values are written as a flat preorder node list.
func c12Enc(v any) any {
	if c12Depth(v) > 50 {
		toks := []any{}
		c12Flat(v, &toks)
		return c12M{"t": "flat", "toks": toks}
	}
	return c12EncNested(v)
}

func c12EncNested(v any) any {
	switch v := v.(type) {
	case nil:
		return c12M{"t": "null"}
	case bool:
		return c12M{"t": "bool", "v": v}
	case int:
		return c12BigInt(big.NewInt(int64(v)))
	case *big.Int:
		return c12BigInt(v)
	case float64:
		return c12Float(v)
	case json.Number:
		return c12M{"t": "lit", "s": c12Bytes(v.String())}
	case string:
		return c12M{"t": "str", "b": c12Bytes(v)}
	case []any:
		xs := make([]any, len(v))
		for i, x := range v {
			xs[i] = c12EncNested(x)
		}
		return c12M{"t": "arr", "a": xs}
	case map[string]any:
		ks := make([]string, 0, len(v))
		for k := range v {
			ks = append(ks, k)
		}
		sort.Strings(ks) // bytewise: the canonical order of the model
		xs := make([]any, len(ks))
		for i, k := range ks {
			xs[i] = []any{c12Bytes(k), c12EncNested(v[k])}
		}
		return c12M{"t": "obj", "o": xs}
	case error:
		return c12M{"t": "err", "msg": v.Error()}
	default:
		return c12M{"t": "other", "x": fmt.Sprintf("%T", v)}
	}
}

func c12DigitString(x any) string {
	var sb strings.Builder
	for _, d := range x.([]any) {
		sb.WriteByte(byte('0' + int(d.(float64))))
	}
	return sb.String()
}

// c12Dec builds the Go value of a case value.
func c12Dec(x any) (any, error) {
	m, ok := x.(map[string]any)
	if !ok {
		return nil, fmt.Errorf("c12Dec: not an object: %v", x)
	}
	switch m["t"] {
	case "null":
		return nil, nil
	case "bool":
		return m["v"].(bool), nil
	case "int":
		s := c12DigitString(m["d"])
		if m["neg"].(bool) {
			s = "-" + s
		}
		z, ok := new(big.Int).SetString(s, 10)
		if !ok {
			return nil, fmt.Errorf("c12Dec: bad integer %q", s)
		}
		if z.IsInt64() {
			return int(z.Int64()), nil
		}
		return z, nil
	case "flt":
		if bits, ok := m["bits"].([]any); ok { // [hi32, lo32]
			return math.Float64frombits(uint64(bits[0].(float64))<<32 | uint64(bits[1].(float64))), nil
		}
		switch m["k"] {
		case "nan":
			return math.NaN(), nil
		case "inf":
			return math.Inf(1), nil
		case "-inf":
			return math.Inf(-1), nil
		}
		ds := c12DigitString(m["d"])
		s := ds[:1] + "." + ds[1:] + "0e" + strconv.Itoa(int(m["e"].(float64)))
		if m["neg"].(bool) {
			s = "-" + s
		}
		f, err := strconv.ParseFloat(s, 64)
		if err != nil {
			return nil, fmt.Errorf("c12Dec: bad float %q", s)
		}
		return f, nil
	case "lit":
		return json.Number(c12FromBytes(m["s"])), nil
	case "str":
		return c12FromBytes(m["b"]), nil
	case "arr":
		xs, _ := m["a"].([]any)
		out := make([]any, len(xs))
		for i, e := range xs {
			v, err := c12Dec(e)
			if err != nil {
				return nil, err
			}
			out[i] = v
		}
		return out, nil
	case "obj":
		xs, _ := m["o"].([]any)
		out := make(map[string]any, len(xs))
		for _, kv := range xs {
			p := kv.([]any)
			v, err := c12Dec(p[1])
			if err != nil {
				return nil, err
			}
			k := c12FromBytes(p[0])
			if _, dup := out[k]; dup {
				return nil, fmt.Errorf("c12Dec: duplicate key %q", k)
			}
			out[k] = v
		}
		return out, nil
	}
	return nil, fmt.Errorf("c12Dec: unknown tag %v", m["t"])
}

// c12Prog turns values into a jq program (run with -n) whose outputs are these
// values with these Go types, plus the command-line arguments and files it needs:
// strings arrive through --arg (raw argv bytes) or --rawfile (any bytes), json.Number
// literals through --argjson, float64 / negative / big integers through tonumber.
type c12Prog struct {
	sb    strings.Builder
	args  []string
	files map[string][]byte // file name (relative) -> contents
	n     int
}

func c12PlainASCII(s string) bool {
	for i := 0; i < len(s); i++ {
		c := s[i]
		if !(c >= 'a' && c <= 'z' || c >= 'A' && c <= 'Z' || c >= '0' && c <= '9' || c == ' ' || c == '_') {
			return false
		}
	}
	return true
}

func (p *c12Prog) str(s string) {
	if c12PlainASCII(s) && len(s) < 40 && p.n%3 != 0 {
		p.n++
		p.sb.WriteString(strconv.Quote(s))
		return
	}
	name := "s" + strconv.Itoa(p.n)
	p.n++
	if strings.IndexByte(s, 0) >= 0 || len(s) > 4000 || p.n%4 == 0 {
		fn := name + ".raw"
		p.files[fn] = []byte(s)
		p.args = append(p.args, "--rawfile", name, fn)
	} else {
		p.args = append(p.args, "--arg", name, s)
	}
	p.sb.WriteString("$" + name)
}

func (p *c12Prog) expr(v any) {
	switch v := v.(type) {
	case nil:
		p.sb.WriteString("null")
	case bool:
		p.sb.WriteString(strconv.FormatBool(v))
	case int:
		if v >= 0 {
			p.sb.WriteString(strconv.Itoa(v))
		} else {
			p.sb.WriteString(`("` + strconv.Itoa(v) + `"|tonumber)`)
		}
	case *big.Int:
		p.sb.WriteString(`("` + v.String() + `"|tonumber)`)
	case float64:
		switch {
		case math.IsNaN(v):
			p.sb.WriteString("nan")
		case math.IsInf(v, 1):
			p.sb.WriteString("infinite")
		case math.IsInf(v, -1):
			p.sb.WriteString("(-infinite)")
		default:
			p.sb.WriteString(`("` + strconv.FormatFloat(v, 'e', -1, 64) + `"|tonumber)`)
		}
	case json.Number:
		name := "j" + strconv.Itoa(p.n)
		p.n++
		p.args = append(p.args, "--argjson", name, v.String())
		p.sb.WriteString("$" + name)
	case string:
		p.str(v)
	case []any:
		p.sb.WriteByte('[')
		for i, x := range v {
			if i > 0 {
				p.sb.WriteByte(',')
			}
			p.expr(x)
		}
		p.sb.WriteByte(']')
	case map[string]any:
		ks := make([]string, 0, len(v))
		for k := range v {
			ks = append(ks, k)
		}
		sort.Strings(ks)
		p.sb.WriteByte('{')
		for i, k := range ks {
			if i > 0 {
				p.sb.WriteByte(',')
			}
			p.sb.WriteByte('(')
			p.str(k)
			p.sb.WriteString("):")
			p.sb.WriteByte('(')
			p.expr(v[k])
			p.sb.WriteByte(')')
		}
		p.sb.WriteByte('}')
	}
}

func c12BuildProg(vs []any) *c12Prog {
	p := &c12Prog{files: map[string][]byte{}}
	if len(vs) == 0 {
		p.sb.WriteString("empty")
	}
	for i, v := range vs {
		if i > 0 {
			p.sb.WriteString(",\n")
		}
		p.expr(v)
	}
	return p
}
