package main

import (
	"context"
	"flag"
	"fmt"
	"time"

	"github.com/itchyny/gojq"

	"verif/harness/vlib"
)

func init() {
	subcmds["eval"] = cmdEval
	subcmds["prelude"] = cmdPrelude
}

// runResult is what one Run of a compiled query produced.
type runResult struct {
	Out   []any  `json:"out"`
	Err   any    `json:"err,omitempty"`
	Panic string `json:"panic,omitempty"`
	Long  bool   `json:"long,omitempty"` // cut by the step/time budget: outside the claim
}

func encErr(err error) any {
	switch e := err.(type) {
	case *gojq.HaltError:
		return vlib.M{"k": "halt", "v": vlib.EncVal(e.Value()), "c": e.ExitCode()}
	case gojq.ValueError:
		return vlib.M{"k": "err", "v": vlib.EncVal(e.Value())}
	default:
		// a message error: `catch` receives the message as a string (msgc = its code points)
		return vlib.M{"k": "err", "v": vlib.M{"t": "opaque"}, "msg": err.Error(), "msgc": vlib.Cps(err.Error())}
	}
}

// runCode runs code on v and collects outputs until the first error.
func runCode(code *gojq.Code, v any, vars []any, maxOut int, budget time.Duration) (res runResult) {
	res.Out = []any{}
	defer func() {
		if e := recover(); e != nil {
			res.Panic = fmt.Sprint(e)
		}
	}()
	ctx := newGuardCtx(0, 0, budget)
	it := code.RunWithContext(ctx, v, vars...)
	for {
		x, ok := it.Next()
		if !ok {
			return
		}
		if err, ok := x.(error); ok {
			if err == context.DeadlineExceeded || err == context.Canceled {
				res.Long = true
				return
			}
			res.Err = encErr(err)
			return
		}
		res.Out = append(res.Out, vlib.EncVal(x))
		if len(res.Out) > maxOut {
			res.Long = true
			return
		}
	}
}

// evalCase replays one case.
func evalCase(c map[string]any, maxOut int, budget time.Duration, noast bool, beat func()) vlib.M {
	rec := vlib.M{"id": c["id"], "src": c["src"]}
	src := c["src"].(string)
	var q *gojq.Query
	var perr error
	func() {
		defer func() {
			if e := recover(); e != nil {
				perr = fmt.Errorf("PANIC in Parse: %v", e)
				rec["panic"] = fmt.Sprint(e)
			}
		}()
		q, perr = gojq.Parse(src)
	}()
	if perr != nil {
		rec["perr"] = perr.Error()
		return rec
	}
	if !noast {
		rec["ast"] = vlib.EncAST(q)
	}
	var code *gojq.Code
	var cerr error
	func() {
		defer func() {
			if e := recover(); e != nil {
				cerr = fmt.Errorf("PANIC in Compile: %v", e)
				rec["panic"] = fmt.Sprint(e)
			}
		}()
		if _, ok := c["inputiter"]; ok {
			code, cerr = gojq.Compile(q, gojq.WithInputIter(gojq.NewIter[any]()))
		} else {
			code, cerr = gojq.Compile(q)
		}
	}()
	if cerr != nil {
		rec["cerr"] = cerr.Error()
		return rec
	}
	rep := vlib.RepNative
	if r, ok := c["rep"].(float64); ok {
		rep = vlib.Rep(int(r))
	}
	runs := []any{}
	for _, iv := range c["inputs"].([]any) {
		beat()
		if ii, ok := c["inputiter"].([]any); ok {
			// WithInputIter: a fresh iterator over the given values for every run
			vals := make([]any, len(ii))
			for k, x := range ii {
				vals[k] = vlib.DecVal(x, rep)
			}
			code, cerr = gojq.Compile(q, gojq.WithInputIter(gojq.NewIter(vals...)))
			if cerr != nil {
				rec["cerr"] = cerr.Error()
				return rec
			}
		}
		r := runCode(code, vlib.DecVal(iv, rep), nil, maxOut, budget)
		run := vlib.M{"in": iv, "out": r.Out}
		if ii, ok := c["inputiter"].([]any); ok {
			run["inputs"] = ii
		}
		if r.Err != nil {
			run["err"] = r.Err
		}
		if r.Panic != "" {
			run["panic"] = r.Panic
		}
		if r.Long {
			run["long"] = true
		}
		runs = append(runs, run)
	}
	rec["runs"] = runs
	return rec
}

// cmdEval: cases {id, src, inputs:[V], rep?} -> records {id, src, ast, perr|cerr, runs:[...]}.
func cmdEval(args []string) error {
	fs := flag.NewFlagSet("eval", flag.ExitOnError)
	in := fs.String("in", "", "cases ndjson")
	out := fs.String("out", "", "trace ndjson")
	maxOut := fs.Int("maxout", 400, "outputs per run before the run is cut")
	budget := fs.Duration("budget", time.Second, "time per run")
	noast := fs.Bool("noast", false, "do not include the AST")
	par := fs.Int("j", 8, "parallel workers")
	fs.Parse(args)
	return runBatch(*in, *out, *par, 6*time.Second+*budget,
		func(c map[string]any, beat func()) map[string]any { return evalCase(c, *maxOut, *budget, *noast, beat) },
		func(c map[string]any) map[string]any {
			return vlib.M{"id": c["id"], "src": c["src"], "hang": true}
		})
}

// cmdPrelude parses jq definition files with the real parser and writes the
// FuncDefs as one JSON array (the Prelude constant of JqSem.tla).
func cmdPrelude(args []string) error {
	fs := flag.NewFlagSet("prelude", flag.ExitOnError)
	out := fs.String("out", "", "output json")
	fs.Parse(args)
	defs := []any{}
	for _, path := range fs.Args() {
		src, err := readFile(path)
		if err != nil {
			return err
		}
		q, err := gojq.Parse(src)
		if err != nil {
			return fmt.Errorf("%s: %v", path, err)
		}
		for _, fd := range q.FuncDefs {
			m := vlib.EncAST(&gojq.Query{FuncDefs: []*gojq.FuncDef{fd}}).(vlib.M)
			defs = append(defs, m["FuncDefs"].([]any)[0])
		}
	}
	w, err := newNDWriter(*out)
	if err != nil {
		return err
	}
	for _, d := range defs {
		if err := w.write(d); err != nil {
			return err
		}
	}
	return w.close()
}
