package main

import (
	"encoding/json"
	"fmt"
	"strconv"

	"verif/harness/vlib"
)

func init() { subcmds["floatatoms"] = cmdFloatAtoms }

// cmdFloatAtoms: vh floatatoms <text>... prints, as one JSON array, the model value of the float64 nearest to each
// decimal text (the encoding every recorded double goes through, vlib.EncFloat): the generators build inputs that
// are carried as float64 from these.
func cmdFloatAtoms(args []string) error {
	out := []any{}
	for _, a := range args {
		f, err := strconv.ParseFloat(a, 64)
		if err != nil {
			return fmt.Errorf("floatatoms: %s: %v", a, err)
		}
		out = append(out, vlib.EncFloat(f))
	}
	b, err := json.Marshal(out)
	if err != nil {
		return err
	}
	fmt.Println(string(b))
	return nil
}
