package main

import (
	"encoding/json"
	"flag"
	"fmt"
	"math/big"
	"strings"
	"time"

	"github.com/itchyny/gojq"

	"verif/harness/vlib"
)

func init() { subcmds["fuzz"] = cmdFuzz }

func goKind(v any) string {
	switch v.(type) {
	case nil:
		return "nil"
	case bool:
		return "bool"
	case int:
		return "int"
	case float64:
		return "float64"
	case *big.Int:
		return "big"
	case json.Number:
		return "json.Number"
	case string:
		return "string"
	case []any:
		return "array"
	case map[string]any:
		return "object"
	}
	return fmt.Sprintf("%T", v)
}

// cmdFuzz: cases {id, srcb: [bytes], inputs: [V], rep} -> the walk Parse -> Compile -> Run -> Next* with every step guarded by recover().
func cmdFuzz(args []string) error {
	fs := flag.NewFlagSet("fuzz", flag.ExitOnError)
	in := fs.String("in", "", "cases")
	out := fs.String("out", "", "trace")
	fs.Parse(args)
	run := func(c map[string]any, beat func()) map[string]any {
		bs := []byte{}
		for _, b := range c["srcb"].([]any) {
			bs = append(bs, byte(b.(float64)))
		}
		src := string(bs)
		rec := vlib.M{"id": c["id"], "fam": "lib", "n": len(src), "srcb": c["srcb"]}
		events := []any{}
		guard := func(f func()) (ok bool) {
			defer func() {
				if e := recover(); e != nil {
					events = append(events, vlib.M{"e": "panic", "what": fmt.Sprint(e)})
					ok = false
				}
			}()
			f()
			return true
		}
		var q *gojq.Query
		var code *gojq.Code
		var err error
		if !guard(func() { q, err = gojq.Parse(src) }) {
			rec["events"] = events
			return rec
		}
		if err != nil {
			ev := vlib.M{"e": "parse_err", "offset": -1, "toklen": 0, "tokends": false, "lexerr": false}
			if pe, ok := err.(*gojq.ParseError); ok {
				ev["offset"], ev["toklen"] = pe.Offset, len(pe.Token)
				ev["tokends"] = pe.Offset >= len(pe.Token) && pe.Offset <= len(src) && src[pe.Offset-len(pe.Token):pe.Offset] == pe.Token
				// invalid-token / escape errors carry the offending text, which for string literals is the unquoted or partial text
				msg := ""
				guard(func() { msg = pe.Error() })
				ev["lexerr"] = strings.HasPrefix(msg, "invalid") || strings.HasPrefix(msg, "unterminated") || strings.HasPrefix(msg, "unexpected EOF") || strings.Contains(src, "\"") || strings.Contains(src, "\x00")
			} else {
				guard(func() { _ = err.Error() })
			}
			events = append(events, ev)
			rec["events"] = events
			return rec
		}
		events = append(events, vlib.M{"e": "parse_ok"})
		guard(func() { _ = q.String() })
		if !guard(func() { code, err = gojq.Compile(q) }) {
			rec["events"] = events
			return rec
		}
		if err != nil {
			guard(func() { _ = err.Error() })
			events = append(events, vlib.M{"e": "compile_err"})
			rec["events"] = events
			return rec
		}
		events = append(events, vlib.M{"e": "compile_ok"})
		rep := vlib.RepNative
		if r, ok := c["rep"].(float64); ok {
			rep = vlib.Rep(int(r))
		}
		for _, iv := range c["inputs"].([]any) {
			beat()
			ok := guard(func() {
				ctx := newGuardCtx(0, 100000, time.Second)
				it := code.RunWithContext(ctx, vlib.DecVal(iv, rep))
				for n := 0; n < 50; n++ {
					v, more := it.Next()
					if !more {
						events = append(events, vlib.M{"e": "end"})
						if _, again := it.Next(); again {
							events = append(events, vlib.M{"e": "value", "kind": "after-end", "json": false, "preview": false})
						}
						return
					}
					if err, isErr := v.(error); isErr {
						if ctx.budget {
							events = append(events, vlib.M{"e": "budget"})
							return
						}
						okmsg := guard(func() { _ = err.Error() })
						events = append(events, vlib.M{"e": "error", "msg": okmsg})
						if _, halt := err.(*gojq.HaltError); halt {
							continue
						}
						continue
					}
					ev := vlib.M{"e": "value", "kind": goKind(v), "json": false, "preview": false}
					guard(func() {
						b, err := gojq.Marshal(v)
						ev["json"] = err == nil && (len(b) > 200000 || json.Valid(b))
					})
					guard(func() { _ = gojq.Preview(v); ev["preview"] = true })
					events = append(events, ev)
				}
				events = append(events, vlib.M{"e": "budget"})
			})
			if !ok {
				break
			}
			// a new run starts: the machine is back in phase "run" (events of runs are concatenated; "end" then "value" is legal only across runs)
			events = append(events, vlib.M{"e": "newrun"})
		}
		rec["events"] = events
		return rec
	}
	return runBatch(*in, *out, 8, 8*time.Second, run, func(c map[string]any) map[string]any {
		return vlib.M{"id": c["id"], "fam": "lib", "n": 0, "srcb": c["srcb"], "hang": true, "events": []any{}}
	})
}
