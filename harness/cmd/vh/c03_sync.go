package main

import (
	"encoding/json"
	"fmt"
	"os"
	"reflect"
	"sort"

	"github.com/itchyny/gojq"

	"verif/harness/vlib"
)

func init() { subcmds["builtinsync"] = cmdBuiltinSync }

// cmdBuiltinSync compares, definition by definition, the AST of /repo/builtin.jq as the real parser returns it with
// the precompiled table of builtin.go (hook VerifBuiltinFuncDefs): {"defs": n, "diff": [names that differ]}.
func cmdBuiltinSync(args []string) error {
	path := "/repo/builtin.jq"
	if len(args) > 0 {
		path = args[0]
	}
	src, err := os.ReadFile(path)
	if err != nil {
		return err
	}
	q, err := gojq.Parse(string(src))
	if err != nil {
		return err
	}
	table := gojq.VerifBuiltinFuncDefs()
	diff := []string{}
	seen := map[string]bool{}
	for _, fd := range q.FuncDefs {
		key := fmt.Sprintf("%s/%d", fd.Name, len(fd.Args))
		seen[key] = true
		var found *gojq.FuncDef
		for _, g := range table[fd.Name] {
			if len(g.Args) == len(fd.Args) {
				found = g
			}
		}
		if found == nil {
			diff = append(diff, key+": missing in builtin.go")
			continue
		}
		a := vlib.EncAST(&gojq.Query{FuncDefs: []*gojq.FuncDef{fd}})
		b := vlib.EncAST(&gojq.Query{FuncDefs: []*gojq.FuncDef{found}})
		if !reflect.DeepEqual(a, b) {
			diff = append(diff, key+": differs")
		}
	}
	for name, fds := range table {
		for _, g := range fds {
			if key := fmt.Sprintf("%s/%d", name, len(g.Args)); !seen[key] {
				diff = append(diff, key+": not in builtin.jq")
			}
		}
	}
	sort.Strings(diff)
	return json.NewEncoder(os.Stdout).Encode(vlib.M{"defs": len(q.FuncDefs), "diff": diff})
}
