package main

import (
	"context"
	"flag"
	"fmt"
	"time"

	"github.com/itchyny/gojq"

	"verif/harness/vlib"
)

func init() { subcmds["optcmp"] = cmdOptCmp }

// nextSeq runs code on v and records the whole Next() sequence (errors included,
// the iteration continues after an error) until false, a budget, or maxN results.
func nextSeq(code *gojq.Code, v any, maxN int, budget time.Duration) (seq []any, long bool, panicked string, polls int, pollsOut bool) {
	seq = []any{}
	defer func() {
		if e := recover(); e != nil {
			panicked = fmt.Sprint(e)
		}
	}()
	ctx := newGuardCtx(0, 200000, budget)
	defer func() { polls, pollsOut = ctx.n, ctx.n >= 200000 }()
	it := code.RunWithContext(ctx, v)
	for {
		x, ok := it.Next()
		if !ok {
			return
		}
		if err, ok := x.(error); ok {
			if err == context.Canceled {
				long = true
				return
			}
			seq = append(seq, vlib.M{"e": encErr(err)})
		} else {
			seq = append(seq, vlib.M{"v": vlib.EncVal(x)})
		}
		if len(seq) >= maxN {
			long = true
			return
		}
	}
}

// cmdOptCmp: cases {id, src, inputs:[V], masks:[int]} -> {id, src, configs:[{mask, cerr|panic|runs:[{seq,long,panic}]}]}
func cmdOptCmp(args []string) error {
	fs := flag.NewFlagSet("optcmp", flag.ExitOnError)
	in := fs.String("in", "", "cases ndjson")
	out := fs.String("out", "", "results ndjson")
	fs.Parse(args)
	var cases []map[string]any
	if err := readNDJSON(*in, func(c map[string]any) error { cases = append(cases, c); return nil }); err != nil {
		return err
	}
	type compiled struct {
		mask  int
		code  *gojq.Code
		cerr  string
		panic string
	}
	recs := make([]vlib.M, len(cases))
	codes := make([][]compiled, len(cases))
	// compile sequentially (the switch mask is process-wide), run in parallel
	for i, c := range cases {
		recs[i] = vlib.M{"id": c["id"], "src": c["src"]}
		q, err := gojq.Parse(c["src"].(string))
		if err != nil {
			recs[i]["perr"] = err.Error()
			continue
		}
		for _, m := range c["masks"].([]any) {
			cc := compiled{mask: int(m.(float64))}
			func() {
				defer func() {
					if e := recover(); e != nil {
						cc.panic = fmt.Sprint(e)
					}
					gojq.VerifOptMask = 0
				}()
				gojq.VerifOptMask = uint(cc.mask)
				code, err := gojq.Compile(q)
				if err != nil {
					cc.cerr = err.Error()
				}
				cc.code = code
			}()
			codes[i] = append(codes[i], cc)
		}
	}
	parallel(len(cases), 8, func(i int) {
		if codes[i] == nil {
			return
		}
		cfgs := []any{}
		for _, cc := range codes[i] {
			cfg := vlib.M{"mask": cc.mask}
			switch {
			case cc.panic != "":
				cfg["panic"] = cc.panic
			case cc.cerr != "":
				cfg["cerr"] = cc.cerr
			default:
				runs := []any{}
				for _, iv := range cases[i]["inputs"].([]any) {
					var seq []any
					var long, pollsOut bool
					var p string
					var polls int
					if watchdog(6*time.Second, func() {
						seq, long, p, polls, pollsOut = nextSeq(cc.code, vlib.DecVal(iv, vlib.RepNative), 300, time.Second)
					}) {
						runs = append(runs, vlib.M{"seq": []any{}, "hang": true, "long": true})
						continue
					}
					r := vlib.M{"seq": seq, "polls": polls}
					if pollsOut {
						r["polls_out"] = true
					}
					if long {
						r["long"] = true
					}
					if p != "" {
						r["panic"] = p
					}
					runs = append(runs, r)
				}
				cfg["runs"] = runs
			}
			cfgs = append(cfgs, cfg)
		}
		recs[i]["configs"] = cfgs
	})
	w, err := newNDWriter(*out)
	if err != nil {
		return err
	}
	for _, r := range recs {
		if err := w.write(r); err != nil {
			return err
		}
	}
	return w.close()
}
