package main

import (
	"context"
	"flag"
	"fmt"
	"sync"
	"time"

	"github.com/itchyny/gojq"

	"verif/harness/vlib"
)

func init() { subcmds["optcmp"] = cmdOptCmp }

// nextSeq runs code on v and records the whole Next() sequence (errors included,
// the iteration continues after an error) until false, a budget, or maxN results.
func nextSeq(code *gojq.Code, v any, maxN int, budget time.Duration) (seq []any, long bool, panicked string, polls int, pollsOut bool) {
	seq = []any{}
	defer func() {
		if e := recover(); e != nil {
			panicked = fmt.Sprint(e)
		}
	}()
	ctx := newGuardCtx(0, 200000, budget)
	defer func() { polls, pollsOut = ctx.n, ctx.n >= 200000 }()
	it := code.RunWithContext(ctx, v)
	for {
		x, ok := it.Next()
		if !ok {
			return
		}
		if err, ok := x.(error); ok {
			if err == context.Canceled {
				long = true
				return
			}
			seq = append(seq, vlib.M{"e": encErr(err)})
		} else {
			seq = append(seq, vlib.M{"v": vlib.EncVal(x)})
		}
		if len(seq) >= maxN {
			long = true
			return
		}
	}
}

// cmdOptCmp: cases {id, src, inputs:[V], masks:[int]} -> {id, src, configs:[{mask, cerr|panic|runs:[{seq,long,panic,hang}]}]}
func cmdOptCmp(args []string) error {
	fs := flag.NewFlagSet("optcmp", flag.ExitOnError)
	in := fs.String("in", "", "cases ndjson")
	out := fs.String("out", "", "results ndjson")
	fs.Parse(args)
	// progress of the case each worker is on, so that a hang can be attributed to (mask, input)
	var mu sync.Mutex
	progress := map[any]*[]any{}
	runCase := func(c map[string]any, beat func()) map[string]any {
		rec := vlib.M{"id": c["id"], "src": c["src"]}
		q, err := gojq.Parse(c["src"].(string))
		if err != nil {
			rec["perr"] = err.Error()
			return rec
		}
		cfgs := []any{}
		mu.Lock()
		progress[c["id"]] = &cfgs
		mu.Unlock()
		for _, m := range c["masks"].([]any) {
			cfg := vlib.M{"mask": int(m.(float64))}
			var code *gojq.Code
			func() {
				tracerMu.Lock() // the switch mask is process-wide
				defer func() {
					if e := recover(); e != nil {
						cfg["panic"] = fmt.Sprint(e)
					}
					gojq.VerifOptMask = 0
					tracerMu.Unlock()
				}()
				gojq.VerifOptMask = uint(int(m.(float64)))
				var err error
				if code, err = gojq.Compile(q); err != nil {
					cfg["cerr"] = err.Error()
				}
			}()
			runs := []any{}
			cfg["runs"] = runs
			mu.Lock()
			cfgs = append(cfgs, cfg)
			mu.Unlock()
			if code == nil || cfg["panic"] != nil || cfg["cerr"] != nil {
				delete(cfg, "runs")
				continue
			}
			for _, iv := range c["inputs"].([]any) {
				cur := vlib.M{"seq": []any{}, "hang": true, "long": true} // replaced when the run returns
				mu.Lock()
				runs = append(runs, cur)
				cfg["runs"] = runs
				mu.Unlock()
				beat()
				seq, long, p, polls, pollsOut := nextSeq(code, vlib.DecVal(iv, vlib.RepNative), 300, time.Second)
				r := vlib.M{"seq": seq, "polls": polls}
				if pollsOut {
					r["polls_out"] = true
				}
				if long {
					r["long"] = true
				}
				if p != "" {
					r["panic"] = p
				}
				mu.Lock()
				runs[len(runs)-1] = r
				mu.Unlock()
			}
		}
		mu.Lock()
		delete(progress, c["id"])
		mu.Unlock()
		rec["configs"] = cfgs
		return rec
	}
	return runBatch(*in, *out, 8, 7*time.Second, runCase, func(c map[string]any) map[string]any {
		mu.Lock()
		defer mu.Unlock()
		rec := vlib.M{"id": c["id"], "src": c["src"], "partial": true}
		if p := progress[c["id"]]; p != nil {
			rec["configs"] = *p
		}
		return rec
	})
}
