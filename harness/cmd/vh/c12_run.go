package main

// vh c12run: replays serialisation cases on the real code.
//
//	case   {id, vs:[V], lib:bool, cli:[cfg], yaml:bool, dbg:bool, yin:[bytes of a YAML document]}
//	record {id, vs:[V as the Go values really are], lib:[{marshal, tojson, tostring, atjson, attext, ijson, itext, rt}],
//	        cli:[{cfg, status, out, err}], yaml:{s1, text, s2, back}}
//
// Library modes go through the public API (gojq.Marshal, Parse/Compile/Run); command modes run the
// real binary given with -gojq, one process per (case, configuration).

import (
	"bytes"
	"context"
	"flag"
	"fmt"
	"os"
	"os/exec"
	"path/filepath"
	"strconv"
	"sync/atomic"
	"time"

	"github.com/itchyny/gojq"
)

func init() {
	subcmds["c12run"] = cmdC12Run
}

var c12Queries = []struct{ name, src string }{
	{"tojson", `tojson`},
	{"tostring", `tostring`},
	{"atjson", `@json`},
	{"attext", `@text`},
	{"ijson", `@json "<\(.)>"`},
	{"itext", `"<\(.)>"`},
	{"rt", `tojson|fromjson`},
	// operators that produce numbers by EDITING a number (unary minus rewrites the text of a kept literal): what they emit is a JSON number too
	{"neg", `if type == "number" then -(.) | tojson else "skip" end`},
	{"negneg", `if type == "number" then -(-(.)) | tojson else "skip" end`},
}

func c12RunQuery(code *gojq.Code, v any) (res any) {
	defer func() {
		if e := recover(); e != nil {
			res = c12M{"t": "panic", "msg": fmt.Sprint(e)}
		}
	}()
	ctx, cancel := context.WithTimeout(context.Background(), 20*time.Second)
	defer cancel()
	it := code.RunWithContext(ctx, v)
	x, ok := it.Next()
	if !ok {
		return c12M{"t": "none"}
	}
	out := c12Enc(x)
	if _, more := it.Next(); more {
		return c12M{"t": "many"}
	}
	return out
}

func c12Marshal(v any) (res any) {
	defer func() {
		if e := recover(); e != nil {
			res = c12M{"t": "panic", "msg": fmt.Sprint(e)}
		}
	}()
	bs, err := gojq.Marshal(v)
	if err != nil {
		return c12M{"t": "err", "msg": err.Error()}
	}
	return c12M{"t": "bytes", "b": c12Bytes(string(bs))}
}

type c12Runner struct {
	gojq  string
	tmp   string
	codes []*gojq.Code
}

// exec runs the real command; stdout, stderr and the exit status are what is observed.
func (r *c12Runner) exec(dir string, args, env []string, stdin []byte) c12M {
	ctx, cancel := context.WithTimeout(context.Background(), 60*time.Second)
	defer cancel()
	cmd := exec.CommandContext(ctx, r.gojq, args...)
	cmd.Dir = dir
	cmd.Env = append([]string{"HOME=/nonexistent", "PATH=/usr/bin:/bin"}, env...)
	cmd.Stdin = bytes.NewReader(stdin)
	var se bytes.Buffer
	so := &capBuffer{max: 6 << 20} // (the largest legitimate output of the check, 300 levels under --indent 9, is below 2 MiB)
	cmd.Stdout, cmd.Stderr = so, &se
	err := cmd.Run()
	status := 0
	if err != nil {
		if ee, ok := err.(*exec.ExitError); ok {
			status = ee.ExitCode()
		} else {
			status = -2
		}
		if ctx.Err() != nil {
			status = -3 // timeout
		}
	}
	e := se.String()
	if len(e) > 600 {
		e = e[:600]
	}
	if so.total > so.max || c12Recorded.Add(int64(so.total)) > c12RecordBudget {
		// far more than any case of the check can legitimately print: keep the head, record the length (the comparison with the specification fails on it)
		head := so.String()
		if len(head) > 16<<10 {
			head = head[:16<<10]
		}
		return c12M{"status": status, "out": c12Bytes(head), "outlen": so.total, "overflow": true, "err": e}
	}
	return c12M{"status": status, "out": c12Bytes(so.String()), "err": e}
}

// c12Recorded counts the stdout bytes recorded by this process; beyond c12RecordBudget (far above what the cases of the check
// print on a sound tree) only heads are kept, so that a tree that prints without end cannot exhaust the memory of the check.
var c12Recorded atomic.Int64

const c12RecordBudget = 64 << 20


func c12Flags(cfg map[string]any) (args, env []string) {
	b := func(k string) bool { v, _ := cfg[k].(bool); return v }
	if b("c") {
		args = append(args, "-c")
	}
	if b("tab") {
		args = append(args, "--tab")
	}
	if ind, ok := cfg["ind"].(float64); ok && ind >= 0 {
		args = append(args, "--indent", strconv.Itoa(int(ind)))
	}
	if b("C") {
		args = append(args, "-C")
	}
	if b("M") {
		args = append(args, "-M")
	}
	switch cfg["raw"] {
	case "r":
		args = append(args, "-r")
	case "j":
		args = append(args, "-j")
	}
	if cs, ok := cfg["colors"].([]any); ok && len(cs) > 0 {
		env = append(env, "GOJQ_COLORS="+c12FromBytes(cs))
	}
	return
}

func (r *c12Runner) run(c map[string]any) (rec c12M) {
	rec = c12M{"id": c["id"]}
	defer func() {
		if e := recover(); e != nil {
			rec["harness_error"] = fmt.Sprint(e)
		}
	}()
	var vals []any
	encs := []any{}
	cvs, _ := c["vs"].([]any)
	if yin, ok := c["yin"].([]any); ok { // a YAML document for --yaml-input
		res := r.exec(r.tmp, []string{"--yaml-input", "-c", "."}, nil, []byte(c12FromBytes(yin)))
		rec["yin"] = res
	}
	for _, x := range cvs {
		v, err := c12Dec(x)
		if err != nil {
			rec["harness_error"] = err.Error()
			return rec
		}
		vals = append(vals, v)
		encs = append(encs, c12Enc(v))
	}
	rec["vs"] = encs
	if lib, _ := c["lib"].(bool); lib {
		ls := []any{}
		for _, v := range vals {
			m := c12M{"marshal": c12Marshal(v)}
			for i, q := range c12Queries {
				m[q.name] = c12RunQuery(r.codes[i], v)
			}
			ls = append(ls, m)
		}
		rec["lib"] = ls
	}
	cfgs, _ := c["cli"].([]any)
	yaml, _ := c["yaml"].(bool)
	dbg, _ := c["dbg"].(bool)
	if len(cfgs) == 0 && !yaml && !dbg {
		return rec
	}
	dir, err := os.MkdirTemp(r.tmp, "c")
	if err != nil {
		rec["harness_error"] = err.Error()
		return rec
	}
	defer os.RemoveAll(dir)
	p := c12BuildProg(vals)
	p.files["prog.jq"] = []byte(p.sb.String())
	for fn, data := range p.files {
		if err := os.WriteFile(filepath.Join(dir, fn), data, 0o644); err != nil {
			rec["harness_error"] = err.Error()
			return rec
		}
	}
	base := append([]string{"-n", "-f", "prog.jq"}, p.args...)
	cl := []any{}
	for _, x := range cfgs {
		cfg := x.(map[string]any)
		fl, env := c12Flags(cfg)
		res := r.exec(dir, append(fl, base...), env, nil)
		res["cfg"] = cfg
		cl = append(cl, res)
	}
	if len(cl) > 0 {
		rec["cli"] = cl
	}
	if dbg {
		// debug and stderr write through a compact encoder of their own on stderr
		ds := []any{}
		for _, color := range []bool{false, true} {
			if err := os.WriteFile(filepath.Join(dir, "dbg.jq"), []byte("("+p.sb.String()+") | debug | stderr | empty"), 0o644); err != nil {
				continue
			}
			fl := []string{"-M"}
			if color {
				fl = []string{"-C"}
			}
			ctx, cancel := context.WithTimeout(context.Background(), 60*time.Second)
			cmd := exec.CommandContext(ctx, r.gojq, append(append(fl, "-n", "-f", "dbg.jq"), p.args...)...)
			cmd.Dir = dir
			cmd.Env = []string{"HOME=/nonexistent", "PATH=/usr/bin:/bin"}
			var so, se bytes.Buffer
			cmd.Stdout, cmd.Stderr = &so, &se
			err := cmd.Run()
			cancel()
			status := 0
			if err != nil {
				status = -2
				if ee, ok := err.(*exec.ExitError); ok {
					status = ee.ExitCode()
				}
			}
			ds = append(ds, c12M{"color": color, "status": status, "out": c12Bytes(so.String()), "err": c12Bytes(se.String())})
		}
		rec["dbg"] = ds
	}
	if yaml {
		yargs := []string{"--yaml-output"}
		ind, hasInd := c["yind"].(float64)
		if hasInd {
			yargs = append(yargs, "--indent", fmt.Sprint(int(ind)))
		}
		// further output options: none of them may change what --yaml-output writes
		if fl, ok := c["yflags"].([]any); ok {
			for _, f := range fl {
				yargs = append(yargs, f.(string))
			}
		}
		y := r.exec(dir, append(yargs, base...), nil, nil)
		text := c12FromBytes(y["out"])
		m := c12M{"s1": y["status"], "text": y["out"], "err1": y["err"]}
		if hasInd {
			m["ind"] = int(ind)
		}
		if y["status"] == 0 {
			b := r.exec(dir, []string{"--yaml-input", "-c", "."}, nil, []byte(text))
			m["s2"], m["back"], m["err2"] = b["status"], b["out"], b["err"]
		}
		rec["yaml"] = m
	}
	return rec
}

func cmdC12Run(args []string) error {
	fs := flag.NewFlagSet("c12run", flag.ExitOnError)
	in := fs.String("in", "", "cases ndjson")
	out := fs.String("out", "", "trace ndjson")
	bin := fs.String("gojq", "", "the gojq binary built from the tree under test")
	tmp := fs.String("tmp", "", "scratch directory")
	par := fs.Int("j", 8, "parallel workers")
	fs.Parse(args)
	r := &c12Runner{gojq: *bin, tmp: *tmp}
	for _, q := range c12Queries {
		pq, err := gojq.Parse(q.src)
		if err != nil {
			return fmt.Errorf("%s: %v", q.src, err)
		}
		code, err := gojq.Compile(pq)
		if err != nil {
			return fmt.Errorf("%s: %v", q.src, err)
		}
		r.codes = append(r.codes, code)
	}
	var cases []map[string]any
	if err := readNDJSON(*in, func(c map[string]any) error { cases = append(cases, c); return nil }); err != nil {
		return err
	}
	recs := make([]c12M, len(cases))
	parallel(len(cases), *par, func(i int) { recs[i] = r.run(cases[i]) })
	w, err := newNDWriter(*out)
	if err != nil {
		return err
	}
	for _, rec := range recs {
		if err := w.write(rec); err != nil {
			return err
		}
	}
	return w.close()
}
