package main

// C10: texts through the number scanner of lexer.go, by its two consumers:
// `tonumber` (lexer.validNumber + toNumber) and the query parser (tokNumber).
// Records what happened; the expectations are in spec/NumLit.tla.

import (
	"flag"
	"strings"

	"github.com/itchyny/gojq"

	"verif/harness/vlib"
)

func init() {
	subcmds["c10tonum"] = cmdC10ToNum
}

func c10Text(x any) string {
	var sb strings.Builder
	for _, c := range x.([]any) {
		sb.WriteRune(rune(c.(float64)))
	}
	return sb.String()
}

func c10ToNumCase(code *gojq.Code, c map[string]any) (rec vlib.M) {
	text := c10Text(c["t"])
	rec = vlib.M{"id": c["id"], "t": c["t"], "ok": false, "qnum": false}
	func() {
		defer func() {
			if e := recover(); e != nil {
				rec["panic"] = true
			}
		}()
		v, ok := code.Run(text).Next()
		if _, isErr := v.(error); ok && !isErr {
			rec["ok"] = true
			rec["go"] = c10Result(v)["go"]
			if txt, err := gojq.Marshal(v); err == nil {
				rec["p"] = vlib.Cps(string(txt))
			}
		}
	}()
	func() {
		defer func() {
			if e := recover(); e != nil {
				rec["panic"] = true
			}
		}()
		q, err := gojq.Parse(text)
		if err == nil && q.Term != nil && q.Term.Type == gojq.TermTypeNumber &&
			q.Term.Number == text && len(q.Term.SuffixList) == 0 && q.String() == text {
			rec["qnum"] = true
		}
	}()
	return rec
}

// cmdC10ToNum: cases {id, t:[code points]} -> {id, t, ok, go, p, qnum}.
func cmdC10ToNum(args []string) error {
	fs := flag.NewFlagSet("c10tonum", flag.ExitOnError)
	in := fs.String("in", "", "cases ndjson")
	out := fs.String("out", "", "trace ndjson")
	par := fs.Int("j", 8, "parallel workers")
	fs.Parse(args)
	q, err := gojq.Parse("tonumber")
	if err != nil {
		return err
	}
	code, err := gojq.Compile(q)
	if err != nil {
		return err
	}
	var cases []map[string]any
	if err := readNDJSON(*in, func(c map[string]any) error { cases = append(cases, c); return nil }); err != nil {
		return err
	}
	recs := make([]vlib.M, len(cases))
	parallel(len(cases), *par, func(i int) { recs[i] = c10ToNumCase(code, cases[i]) })
	w, err := newNDWriter(*out)
	if err != nil {
		return err
	}
	for _, r := range recs {
		if err := w.write(r); err != nil {
			return err
		}
	}
	return w.close()
}
