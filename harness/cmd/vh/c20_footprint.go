package main

import (
	"flag"
	"fmt"
	"time"

	"github.com/itchyny/gojq"

	"verif/harness/vlib"
)

func init() { subcmds["footprint"] = cmdFootprint }

type peak struct {
	Nf, Sd, Scd, Pd, Off, Sp, Scp, Pp, Nv int
}

func (p *peak) see(s gojq.VerifStep) {
	p.Nf, p.Sd, p.Scd, p.Pd = max(p.Nf, s.Nf), max(p.Sd, s.Sd), max(p.Scd, s.Scd), max(p.Pd, s.Pd)
	p.Off, p.Sp, p.Scp, p.Pp, p.Nv = max(p.Off, s.Off), max(p.Sp, s.Sp), max(p.Scp, s.Scp), max(p.Pp, s.Pp), max(p.Nv, s.Nv)
}

func (p peak) m() vlib.M {
	return vlib.M{"forks": p.Nf, "stack_log": p.Sd, "scope_log": p.Scd, "path_log": p.Pd, "offset": p.Off,
		"stack_phys": p.Sp, "scope_phys": p.Scp, "path_phys": p.Pp, "values": p.Nv}
}

// cmdFootprint: cases {id, src, input, n, mode: "emit"|"turns"}
//   emit : the generator is consumed; the retained interpreter state (VerifFootprint) is sampled after the n-th and the 8n-th output
//   turns: src contains %N; it is run to completion with N = n and N = 8n; the PEAK of the step tracer's footprint is compared
func cmdFootprint(args []string) error {
	fs := flag.NewFlagSet("footprint", flag.ExitOnError)
	in := fs.String("in", "", "cases")
	out := fs.String("out", "", "results")
	fs.Parse(args)
	run := func(c map[string]any, beat func()) map[string]any {
		rec := vlib.M{"id": c["id"], "src": c["src"], "n": c["n"], "mode": c["mode"]}
		n := int(c["n"].(float64))
		input := vlib.DecVal(c["input"], vlib.RepNative)
		compile := func(src string) *gojq.Code {
			q, err := gojq.Parse(src)
			if err != nil {
				rec["perr"] = err.Error()
				return nil
			}
			k := 0
			code, err := gojq.Compile(q, gojq.WithVariables([]string{"$N"}),
				gojq.WithInputIter(iterFunc(func() (any, bool) { k++; return k, true })))
			if err != nil {
				rec["cerr"] = err.Error()
				return nil
			}
			return code
		}
		defer func() {
			if e := recover(); e != nil {
				rec["panic"] = fmt.Sprint(e)
			}
		}()
		if c["mode"] == "emit" {
			code := compile(c["src"].(string))
			if code == nil {
				return rec
			}
			beat()
			ctx := newGuardCtx(0, 0, 60*time.Second)
			it := code.RunWithContext(ctx, input, 8*n)
			cnt := 0
			for cnt < 8*n {
				v, ok := it.Next()
				if !ok {
					rec["ended"] = cnt
					return rec
				}
				if err, ok := v.(error); ok {
					rec["err"] = err.Error()
					return rec
				}
				cnt++
				if cnt%1000 == 0 {
					beat()
				}
				if cnt == n || cnt == 8*n {
					fp, _ := gojq.VerifFootprint(it)
					key := "fp_n"
					if cnt == 8*n {
						key = "fp_8n"
					}
					rec[key] = fp
				}
			}
			return rec
		}
		code := compile(c["src"].(string))
		if code == nil {
			return rec
		}
		tracerMu.Lock()
		defer tracerMu.Unlock()
		defer func() { gojq.VerifTracer = nil }()
		for _, mult := range []int{1, 8} {
			var p peak
			steps := 0
			gojq.VerifTracer = func(s gojq.VerifStep) {
				p.see(s)
				if steps++; steps%100000 == 0 {
					beat()
				}
			}
			ctx := newGuardCtx(0, 0, 120*time.Second)
			it := code.RunWithContext(ctx, input, n*mult)
			outs := 0
			for {
				v, ok := it.Next()
				if !ok {
					break
				}
				if err, ok := v.(error); ok {
					rec["err"] = err.Error()
					return rec
				}
				outs++
			}
			key := "peak_n"
			if mult == 8 {
				key = "peak_8n"
			}
			rec[key] = p.m()
			rec[key+"_steps"] = steps
		}
		return rec
	}
	return runBatch(*in, *out, 1, 15*time.Second, run, func(c map[string]any) map[string]any {
		return vlib.M{"id": c["id"], "src": c["src"], "hang": true}
	})
}

type iterFunc func() (any, bool)

func (f iterFunc) Next() (any, bool) { return f() }
