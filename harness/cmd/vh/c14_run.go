package main

import (
	"flag"
	"fmt"
	"regexp"
	"time"

	"github.com/itchyny/gojq"

	"verif/harness/vlib"
)

// C14: code-point positions and the regex builtins.
//
// vh c14run replays cases on the real gojq through the public API and, next
// to them, probes Go's regexp package directly (the ENVIRONMENT of the
// specification spec/Regex.tla: the engine is not modelled, its raw answers
// are logged).  The sub-command is generic: it knows nothing about flags,
// prefixes, offsets or the meaning of the programs it runs.
//
//	case   {id, input: V, vars: [[name, V]...], progs: [{k, src}...],
//	        probes: [[code points of a pattern]...], asts: [src...], meta: any}
//	record {id, meta, input, vars,
//	        runs:   [{k, out: [V...], err?, panic?, long?, cerr?}...],
//	        probes: [{pat, ok, names: [[cp]...], all: [[int]...], first: [[int]...], test}...],
//	        asts:   [AST...]}
func init() {
	subcmds["c14run"] = cmdC14Run
}

func cpsToString(x any) string {
	rs := []rune{}
	for _, c := range x.([]any) {
		rs = append(rs, rune(c.(float64)))
	}
	return string(rs)
}

func intRows(xs [][]int) []any {
	rows := []any{}
	for _, x := range xs {
		row := []any{}
		for _, i := range x {
			row = append(row, i)
		}
		rows = append(rows, row)
	}
	return rows
}

// c14Probe asks the regexp package (not gojq) about one pattern on one subject.
func c14Probe(pat any, subject string) vlib.M {
	p := vlib.M{"pat": pat}
	r, err := regexp.Compile(cpsToString(pat))
	if err != nil {
		p["ok"] = false
		p["cerr"] = err.Error()
		return p
	}
	p["ok"] = true
	names := []any{}
	for _, n := range r.SubexpNames()[1:] {
		names = append(names, vlib.Cps(n))
	}
	p["names"] = names
	p["all"] = intRows(r.FindAllStringSubmatchIndex(subject, -1))
	p["first"] = intRows(r.FindAllStringSubmatchIndex(subject, 1))
	p["test"] = r.MatchString(subject)
	return p
}

func c14Case(c map[string]any, maxOut int, budget time.Duration) (rec vlib.M) {
	rec = vlib.M{"id": c["id"], "input": c["input"], "vars": c["vars"]}
	if m, ok := c["meta"]; ok {
		rec["meta"] = m
	}
	input := vlib.DecVal(c["input"], vlib.RepNative)
	names, vals := []string{}, []any{}
	if vs, ok := c["vars"].([]any); ok {
		for _, nv := range vs {
			p := nv.([]any)
			names = append(names, p[0].(string))
			vals = append(vals, vlib.DecVal(p[1], vlib.RepNative))
		}
	}
	runs := []any{}
	if ps, ok := c["progs"].([]any); ok {
		for _, pr := range ps {
			pm := pr.(map[string]any)
			run := vlib.M{"k": pm["k"]}
			var code *gojq.Code
			var cerr error
			func() {
				defer func() {
					if e := recover(); e != nil {
						cerr = fmt.Errorf("PANIC in Parse/Compile: %v", e)
						run["panic"] = fmt.Sprint(e)
					}
				}()
				var q *gojq.Query
				if q, cerr = gojq.Parse(pm["src"].(string)); cerr == nil {
					code, cerr = gojq.Compile(q, gojq.WithVariables(names))
				}
			}()
			if cerr != nil {
				run["cerr"] = cerr.Error()
				run["out"] = []any{}
				runs = append(runs, run)
				continue
			}
			r := runCode(code, input, vals, maxOut, budget)
			run["out"] = r.Out
			if r.Err != nil {
				run["err"] = r.Err
			}
			if r.Panic != "" {
				run["panic"] = r.Panic
			}
			if r.Long {
				run["long"] = true
			}
			runs = append(runs, run)
		}
	}
	rec["runs"] = runs
	probes := []any{}
	if ps, ok := c["probes"].([]any); ok {
		subject, _ := input.(string)
		for _, pat := range ps {
			probes = append(probes, c14Probe(pat, subject))
		}
	}
	rec["probes"] = probes
	asts := []any{}
	if as, ok := c["asts"].([]any); ok {
		for _, a := range as {
			q, err := gojq.Parse(a.(string))
			if err != nil {
				asts = append(asts, vlib.M{"perr": err.Error()})
			} else {
				asts = append(asts, vlib.EncAST(q))
			}
		}
	}
	rec["asts"] = asts
	return rec
}

func cmdC14Run(args []string) error {
	fs := flag.NewFlagSet("c14run", flag.ExitOnError)
	in := fs.String("in", "", "cases ndjson")
	out := fs.String("out", "", "trace ndjson")
	maxOut := fs.Int("maxout", 5000, "outputs per run before the run is cut")
	budget := fs.Duration("budget", 2*time.Second, "time per run (watchdog)")
	par := fs.Int("j", 8, "parallel workers")
	fs.Parse(args)
	var cases []map[string]any
	if err := readNDJSON(*in, func(c map[string]any) error { cases = append(cases, c); return nil }); err != nil {
		return err
	}
	recs := make([]vlib.M, len(cases))
	parallel(len(cases), *par, func(i int) { recs[i] = c14Case(cases[i], *maxOut, *budget) })
	w, err := newNDWriter(*out)
	if err != nil {
		return err
	}
	for _, r := range recs {
		if err := w.write(r); err != nil {
			return err
		}
	}
	return w.close()
}
