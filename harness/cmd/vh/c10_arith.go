package main

// C10: replay of integer operator cases on the real gojq (library API).
//
// A case names an operator, one or two operands as decimal text and a list of
// runs: the query mode and the Go representations to give to the operands.  The harness
// builds the operands (int / *big.Int / json.Number), runs the compiled
// query and records the dynamic Go type of the result, its value and what
// gojq.Marshal prints for it.  No arithmetic is done here: digits are only
// copied out of the decimal text.

import (
	"encoding/json"
	"flag"
	"fmt"
	"math"
	"math/big"
	"strconv"
	"strings"
	"sync"

	"github.com/itchyny/gojq"

	"verif/harness/vlib"
)

func init() {
	subcmds["c10arith"] = cmdC10Arith
}

var c10OpText = map[string]string{
	"add": "+", "sub": "-", "mul": "*", "div": "/", "mod": "%",
	"eq": "==", "ne": "!=", "gt": ">", "lt": "<", "ge": ">=", "le": "<=",
}

// c10Digits turns the text of a decimal integer into {neg, d}; ok is false
// when the text is not of the form -?[0-9]+.
func c10Digits(s string) (vlib.M, bool) {
	neg := strings.HasPrefix(s, "-")
	t := strings.TrimPrefix(s, "-")
	if t == "" {
		return nil, false
	}
	ds := []any{}
	lead := true
	for _, c := range t {
		if c < '0' || c > '9' {
			return nil, false
		}
		if lead && c == '0' {
			continue
		}
		lead = false
		ds = append(ds, int(c-'0'))
	}
	if len(ds) == 0 {
		return vlib.M{"neg": false, "d": ds, "negzero": neg}, true
	}
	return vlib.M{"neg": neg, "d": ds}, true
}

func c10Operand(text, rep string) (any, error) {
	switch rep {
	case "int":
		n, err := strconv.Atoi(text)
		if err != nil {
			return nil, err
		}
		return n, nil
	case "big":
		z, ok := new(big.Int).SetString(text, 10)
		if !ok {
			return nil, fmt.Errorf("bad integer %q", text)
		}
		return z, nil
	case "jnum":
		return json.Number(text), nil
	case "jnegzero":
		return json.Number("-0"), nil
	}
	return nil, fmt.Errorf("unknown representation %q", rep)
}

// c10Result describes a value produced by the real code.
func c10Result(v any) vlib.M {
	res := vlib.M{}
	var native string
	switch x := v.(type) {
	case int:
		res["go"] = "int"
		native = strconv.Itoa(x)
	case *big.Int:
		res["go"] = "big"
		native = x.String()
	case json.Number:
		res["go"] = "jnum"
		native = x.String()
	case float64:
		res["go"] = "float"
		res["k"] = "float"
		if x == math.Trunc(x) && math.Abs(x) < 1<<53 {
			iv, _ := c10Digits(strconv.FormatInt(int64(x), 10))
			res["iv"] = iv
		}
	case bool:
		res["go"] = "bool"
		res["k"] = "bool"
		res["b"] = x
		return res
	default:
		res["go"] = fmt.Sprintf("%T", v)
		res["k"] = "other"
		return res
	}
	// what the library encoder prints
	txt, err := gojq.Marshal(v)
	if err != nil {
		res["perr"] = err.Error()
	} else if p, ok := c10Digits(string(txt)); ok {
		res["p"] = p
	} else {
		res["ptxt"] = vlib.Cps(string(txt))
	}
	if res["k"] == "float" {
		return res
	}
	if z, ok := c10Digits(native); ok {
		res["k"] = "z"
		res["neg"], res["d"] = z["neg"], z["d"]
		if z["negzero"] == true {
			res["negzero"] = true
		}
	} else {
		res["k"] = "other"
		res["txt"] = native
	}
	return res
}

type c10Compiler struct {
	mu    sync.Mutex
	cache map[string]*gojq.Code
}

func (c *c10Compiler) get(src string, vars bool, cache bool) (*gojq.Code, error) {
	if cache {
		c.mu.Lock()
		code := c.cache[src]
		c.mu.Unlock()
		if code != nil {
			return code, nil
		}
	}
	q, err := gojq.Parse(src)
	if err != nil {
		return nil, fmt.Errorf("parse %q: %v", src, err)
	}
	var code *gojq.Code
	if vars {
		code, err = gojq.Compile(q, gojq.WithVariables([]string{"$a", "$b"}))
	} else {
		code, err = gojq.Compile(q)
	}
	if err != nil {
		return nil, fmt.Errorf("compile %q: %v", src, err)
	}
	if cache {
		c.mu.Lock()
		c.cache[src] = code
		c.mu.Unlock()
	}
	return code, nil
}

func c10LeadingZeros(text string) string {
	if strings.HasPrefix(text, "-") {
		return "-000" + text[1:]
	}
	if text == "" {
		return text
	}
	return "00" + text
}

func c10Lit(text string) string {
	if strings.HasPrefix(text, "-") {
		return "(" + text + ")"
	}
	return text
}

// c10Query returns the query text for (kind, op, mode).
func c10Query(kind, op, mode, a, b string) (string, error) {
	var x, y string
	switch mode {
	case "var", "addfn":
		x, y = "$a", "$b"
	case "input":
		x, y = ".[0]", ".[1]"
	case "lit":
		x, y = c10Lit(a), c10Lit(b)
	default:
		return "", fmt.Errorf("unknown mode %q", mode)
	}
	switch kind {
	case "bin", "rel":
		if mode == "addfn" {
			if op != "add" {
				return "", fmt.Errorf("addfn needs op add")
			}
			return "[$a, $b] | add", nil
		}
		t, ok := c10OpText[op]
		if !ok {
			return "", fmt.Errorf("unknown operator %q", op)
		}
		return x + " " + t + " " + y, nil
	case "un":
		switch op {
		case "neg":
			return "-(" + x + ")", nil
		case "plus":
			return "+(" + x + ")", nil
		case "abs":
			return x + " | abs", nil
		case "length":
			return x + " | length", nil
		}
	}
	return "", fmt.Errorf("unknown case kind %q op %q", kind, op)
}

func c10Run(code *gojq.Code, input any, vars []any) (res vlib.M) {
	defer func() {
		if e := recover(); e != nil {
			res = vlib.M{"k": "panic", "msg": fmt.Sprint(e)}
		}
	}()
	it := code.Run(input, vars...)
	v, ok := it.Next()
	if !ok {
		return vlib.M{"k": "empty"}
	}
	if err, isErr := v.(error); isErr {
		return vlib.M{"k": "err", "msg": err.Error()}
	}
	res = c10Result(v)
	if w, more := it.Next(); more {
		res = vlib.M{"k": "other", "txt": fmt.Sprintf("more than one output: %v", w)}
	}
	return res
}

func c10ArithCase(cc *c10Compiler, c map[string]any) (vlib.M, error) {
	kind, _ := c["kind"].(string)
	op, _ := c["op"].(string)
	a, _ := c["a"].(string)
	b, _ := c["b"].(string)
	rec := vlib.M{"id": c["id"], "kind": kind, "op": op}
	az, ok := c10Digits(a)
	if !ok {
		return nil, fmt.Errorf("bad operand %q", a)
	}
	rec["a"] = az
	unary := kind == "un"
	if !unary {
		bz, ok := c10Digits(b)
		if !ok {
			return nil, fmt.Errorf("bad operand %q", b)
		}
		rec["b"] = bz
	}
	runs := []any{}
	rs, _ := c["runs"].([]any)
	for _, r := range rs {
		spec := r.(map[string]any)
		mode, _ := spec["mode"].(string)
		la, _ := spec["la"].(string)
		lb, _ := spec["lb"].(string)
		// "litz": the same literals spelled with leading zeros (same numbers; parseNumber must read them in base ten)
		qa, qb := a, b
		if mode == "litz" {
			mode, qa, qb = "lit", c10LeadingZeros(a), c10LeadingZeros(b)
		}
		src, err := c10Query(kind, op, mode, qa, qb)
		if err != nil {
			return nil, err
		}
		withVars := mode == "var" || mode == "addfn"
		code, err := cc.get(src, withVars, mode != "lit")
		if err != nil {
			return nil, err
		}
		run := vlib.M{"mode": mode, "la": la, "src": src}
		if !unary {
			run["lb"] = lb
		}
		if mode == "lit" {
			run["res"] = c10Run(code, nil, nil)
			// the literals are constants of the compiled code: a second run must see the same numbers
			if again := c10Run(code, nil, nil); fmt.Sprint(again) != fmt.Sprint(run["res"]) {
				run["mutated"] = fmt.Sprintf("second run of the same code: %v", again)
			}
			runs = append(runs, run)
			continue
		}
		av, err := c10Operand(a, la)
		if err != nil {
			return nil, err
		}
		var bv any
		if !unary {
			if bv, err = c10Operand(b, lb); err != nil {
				return nil, err
			}
		}
		a0, b0 := fmt.Sprint(c10Result(av)), fmt.Sprint(c10Result(bv))
		if withVars {
			run["res"] = c10Run(code, nil, []any{av, bv})
		} else {
			run["res"] = c10Run(code, []any{av, bv}, nil)
		}
		// exactness of every LATER use: the operands themselves must still be the numbers they were
		if a1, b1 := fmt.Sprint(c10Result(av)), fmt.Sprint(c10Result(bv)); a1 != a0 || b1 != b0 {
			run["mutated"] = fmt.Sprintf("operands after the operation: %s %s (before: %s %s)", a1, b1, a0, b0)
		}
		runs = append(runs, run)
	}
	rec["runs"] = runs
	return rec, nil
}

// cmdC10Arith: cases {id, kind, op, a, b, runs:[{mode, la, lb}]} -> records {id, kind, op, a, b, runs:[{mode, la, lb, src, res}]}.
func cmdC10Arith(args []string) error {
	fs := flag.NewFlagSet("c10arith", flag.ExitOnError)
	in := fs.String("in", "", "cases ndjson")
	out := fs.String("out", "", "trace ndjson")
	par := fs.Int("j", 8, "parallel workers")
	fs.Parse(args)
	var cases []map[string]any
	if err := readNDJSON(*in, func(c map[string]any) error { cases = append(cases, c); return nil }); err != nil {
		return err
	}
	cc := &c10Compiler{cache: map[string]*gojq.Code{}}
	recs := make([]vlib.M, len(cases))
	errs := make([]error, len(cases))
	parallel(len(cases), *par, func(i int) { recs[i], errs[i] = c10ArithCase(cc, cases[i]) })
	w, err := newNDWriter(*out)
	if err != nil {
		return err
	}
	for i, r := range recs {
		if errs[i] != nil {
			return fmt.Errorf("case %v: %v", cases[i]["id"], errs[i])
		}
		if err := w.write(r); err != nil {
			return err
		}
	}
	return w.close()
}
