package main

import (
	"errors"
	"flag"
	"fmt"
	"strings"
	"time"

	"github.com/itchyny/gojq"

	"verif/harness/vlib"
)

func init() { subcmds["caps"] = cmdCaps }

type emptyLoader struct{}

func (emptyLoader) LoadModule(name string) (*gojq.Query, error) {
	return gojq.Parse("def m: 1;")
}

// The relation of the custom function `cf` (and of the equivalent jq definition, see checks/c19.py):
//   cf(a1..an) on input x = ["<tag><n>", x, a1, ..., an]; if any argument is the string "boom" the call raises error("boom:<tag>").
type valueError struct{ v any }

func (e *valueError) Error() string { return fmt.Sprint(e.v) }
func (e *valueError) Value() any    { return e.v }

func customFunc(tag string) func(any, []any) any {
	return func(x any, args []any) any {
		for _, a := range args {
			if a == "boom" {
				return &valueError{"boom:" + tag}
			}
		}
		out := []any{fmt.Sprintf("%s%d", tag, len(args)), x}
		return append(out, args...)
	}
}

// cfi(a1..an) yields x, then a1 .. an; if an argument is "boom" the stream ends with error("boom:<tag>") at that position.
func customIter(tag string) func(any, []any) gojq.Iter {
	return func(x any, args []any) gojq.Iter {
		vals := []any{x}
		for _, a := range args {
			if a == "boom" {
				vals = append(vals, &valueError{"boom:" + tag})
				break
			}
			vals = append(vals, a)
		}
		return gojq.NewIter(vals...)
	}
}

// cmdCaps: cases by kind
//   custom  {src (uses cf / cfi), regs: [[min,max,tag]...], iregs, input}: compile with the Go functions and run
//   env     {pairs: [strings]} -> env and $ENV
//   vars    {names: n, given: k}
//   gate    {probe, opts: [...]}
func cmdCaps(args []string) error {
	fs := flag.NewFlagSet("caps", flag.ExitOnError)
	in := fs.String("in", "", "cases")
	out := fs.String("out", "", "results")
	fs.Parse(args)
	run := func(c map[string]any, beat func()) (rec map[string]any) {
		rec = vlib.M{"id": c["id"], "k": c["k"]}
		defer func() {
			if e := recover(); e != nil {
				rec["panic"] = fmt.Sprint(e)
			}
		}()
		switch c["k"] {
		case "custom":
			q, err := gojq.Parse(c["src"].(string))
			if err != nil {
				rec["perr"] = err.Error()
				return
			}
			opts := []gojq.CompilerOption{}
			for _, r := range c["regs"].([]any) {
				rr := r.([]any)
				opts = append(opts, gojq.WithFunction("cf", int(rr[0].(float64)), int(rr[1].(float64)), customFunc(rr[2].(string))))
			}
			for _, r := range c["iregs"].([]any) {
				rr := r.([]any)
				opts = append(opts, gojq.WithIterFunction("cfi", int(rr[0].(float64)), int(rr[1].(float64)), customIter(rr[2].(string))))
			}
			code, err := gojq.Compile(q, opts...)
			if err != nil {
				rec["cerr"] = err.Error()
				return
			}
			r := runCode(code, vlib.DecVal(c["input"], vlib.RepNative), nil, 200, time.Second)
			rec["out"], rec["err"], rec["long"] = r.Out, r.Err, r.Long
			if r.Panic != "" {
				rec["panic"] = r.Panic
			}
		case "reuse":
			// {opts: [[kind, min, max, tag]...], steps: [{src, use: [indices]}...], input}: the option VALUES are created once and used by
			// several compilations in turn ("shared"), then every compilation gets freshly created options ("fresh"); an option is a
			// description of a capability, so both must behave alike.  Also a history of runs of ONE code: run(input), run(other), run(input).
			mk := func() []gojq.CompilerOption {
				os := []gojq.CompilerOption{}
				for _, o := range c["opts"].([]any) {
					oo := o.([]any)
					mn, mx, tag := int(oo[1].(float64)), int(oo[2].(float64)), oo[3].(string)
					switch oo[0] {
					case "func":
						os = append(os, gojq.WithFunction("cf", mn, mx, customFunc(tag)))
					case "iter":
						os = append(os, gojq.WithIterFunction("cfi", mn, mx, customIter(tag)))
					case "vars":
						os = append(os, gojq.WithVariables([]string{"$" + tag}))
					case "env":
						os = append(os, gojq.WithEnvironLoader(func() []string { return []string{"K=" + tag} }))
					}
				}
				return os
			}
			runSteps := func(shared bool) []any {
				all := mk()
				out := []any{}
				for _, st := range c["steps"].([]any) {
					step := st.(map[string]any)
					if !shared {
						all = mk()
					}
					sel := []gojq.CompilerOption{}
					for _, i := range step["use"].([]any) {
						sel = append(sel, all[int(i.(float64))])
					}
					q, err := gojq.Parse(step["src"].(string))
					if err != nil {
						out = append(out, vlib.M{"perr": err.Error()})
						continue
					}
					code, err := gojq.Compile(q, sel...)
					if err != nil {
						out = append(out, vlib.M{"cerr": err.Error()})
						continue
					}
					vals := []any{}
					for _, i := range step["use"].([]any) {
						if c["opts"].([]any)[int(i.(float64))].([]any)[0] == "vars" {
							vals = append(vals, "val")
						}
					}
					r := runCode2(code, vlib.DecVal(c["input"], vlib.RepNative), vals, 100, time.Second)
					out = append(out, vlib.M{"out": r.Out, "err": r.Err, "long": r.Long, "panic": r.Panic})
				}
				return out
			}
			rec["shared"], rec["fresh"] = runSteps(true), runSteps(false)
		case "emptyloader":
			// {src, paths: [..] | null}: a module loader whose search list holds no usable entry (empty strings are documented as ignored)
			// grants nothing, whatever lies in the working directory of the process
			var paths []string
			if ps, ok := c["paths"].([]any); ok {
				for _, p := range ps {
					paths = append(paths, p.(string))
				}
			}
			q, err := gojq.Parse(c["src"].(string))
			if err != nil {
				rec["perr"] = err.Error()
				return
			}
			code, err := gojq.Compile(q, gojq.WithModuleLoader(gojq.NewModuleLoader(paths)))
			if err != nil {
				rec["cerr"] = err.Error()
				return
			}
			r := runCode(code, nil, nil, 20, time.Second)
			rec["out"], rec["err"] = r.Out, r.Err
		case "history":
			// {src, input, other}: one compiled code run on input, other, input again (and on an equal copy): the outputs for input must be the same each time
			q, err := gojq.Parse(c["src"].(string))
			if err != nil {
				rec["perr"] = err.Error()
				return
			}
			code, err := gojq.Compile(q)
			if err != nil {
				rec["cerr"] = err.Error()
				return
			}
			runs := []any{}
			for _, k := range []string{"input", "other", "input", "other", "input"} {
				r := runCode(code, vlib.DecVal(c[k], vlib.RepNative), nil, 100, time.Second)
				runs = append(runs, vlib.M{"on": k, "out": r.Out, "err": r.Err, "long": r.Long, "panic": r.Panic})
			}
			fresh, _ := gojq.Compile(q)
			r := runCode(fresh, vlib.DecVal(c["input"], vlib.RepNative), nil, 100, time.Second)
			runs = append(runs, vlib.M{"on": "fresh-code", "out": r.Out, "err": r.Err, "long": r.Long, "panic": r.Panic})
			rec["runs"] = runs
		case "env":
			pairs := []string{}
			cps := []any{}
			for _, p := range c["pairs"].([]any) {
				pairs = append(pairs, p.(string))
				cps = append(cps, vlib.Cps(p.(string)))
			}
			rec["pairs"] = cps
			for i, src := range []string{"env", "$ENV"} {
				q, _ := gojq.Parse(src)
				code, err := gojq.Compile(q, gojq.WithEnvironLoader(func() []string { return pairs }))
				if err != nil {
					rec["cerr"] = err.Error()
					return
				}
				v, _ := code.Run(nil).Next()
				rec[[]string{"got", "got2"}[i]] = vlib.EncVal(v)
			}
		case "vars":
			n, k := int(c["names"].(float64)), int(c["given"].(float64))
			names, vals, want := []string{}, []any{}, []any{}
			for i := 0; i < n; i++ {
				names = append(names, fmt.Sprintf("$v%d", i))
			}
			for i := 0; i < k; i++ {
				vals = append(vals, i*10)
			}
			for i := 0; i < n && i < k; i++ {
				want = append(want, i*10)
			}
			q, _ := gojq.Parse("[" + strings.Join(append([]string{"1"}, names...), ", ") + "]")
			code, err := gojq.Compile(q, gojq.WithVariables(names))
			if err != nil {
				rec["cerr"] = err.Error()
				return
			}
			it := code.Run(nil, vals...)
			v, ok := it.Next()
			rec["n"], rec["given"] = n, k
			switch {
			case !ok:
				rec["outcome"] = "nothing"
			case func() bool { _, isErr := v.(error); return isErr }():
				if strings.Contains(v.(error).Error(), "too many") {
					rec["outcome"] = "error-too-many"
				} else {
					rec["outcome"] = "error-too-few"
				}
				if w, again := it.Next(); again {
					rec["outcome"] = fmt.Sprintf("more-after-error:%v", w)
				}
			default:
				if fmt.Sprint(v) == fmt.Sprint(append([]any{1}, want...)) {
					rec["outcome"] = "bound-in-order"
				} else {
					rec["outcome"] = fmt.Sprintf("wrong-binding:%v", v)
				}
				// the values slice belongs to the caller: it is the same after the run, and a second run with it binds the same values
				for i := range vals {
					if vals[i] != i*10 {
						rec["outcome"] = fmt.Sprintf("values-slice-modified:%v", vals)
					}
				}
				if v2, ok2 := code.Run(nil, vals...).Next(); !ok2 || fmt.Sprint(v2) != fmt.Sprint(v) {
					rec["outcome"] = fmt.Sprintf("second-run-differs:%v then %v", v, v2)
				}
			}
		case "gate":
			opts := []gojq.CompilerOption{}
			names := []any{}
			for _, o := range c["opts"].([]any) {
				names = append(names, o)
				switch o {
				case "ModuleLoader":
					opts = append(opts, gojq.WithModuleLoader(emptyLoader{}))
				case "EnvironLoader":
					opts = append(opts, gojq.WithEnvironLoader(func() []string { return []string{"A=b"} }))
				case "Variables":
					opts = append(opts, gojq.WithVariables([]string{"$var"}))
				case "Function":
					opts = append(opts, gojq.WithFunction("custom", 0, 0, func(any, []any) any { return 1 }))
				case "InputIter":
					opts = append(opts, gojq.WithInputIter(gojq.NewIter[any](1, 2)))
				}
			}
			src := map[string]string{"env": "env", "$ENV": "$ENV", "input": "input", "inputs": "[inputs]", "import": "import \"m\" as m; m::m", "include": "include \"m\"; m",
				"modulemeta": "\"m\" | modulemeta | type", "$var": "$var", "custom": "custom", "now": "now | type"}[c["probe"].(string)]
			rec["probe"], rec["opts"] = c["probe"], names
			q, err := gojq.Parse(src)
			if err != nil {
				rec["perr"] = err.Error()
				return
			}
			code, err := gojq.Compile(q, opts...)
			if err != nil {
				rec["outcome"] = "compile-error"
				return
			}
			var vals []any
			for _, o := range names {
				if o == "Variables" {
					vals = []any{7}
				}
			}
			v, ok := code.Run(nil, vals...).Next()
			if _, isErr := v.(error); ok && isErr {
				rec["outcome"] = "runtime-error"
			} else {
				rec["outcome"] = "value"
			}
		default:
			rec["perr"] = errors.New("unknown kind").Error()
		}
		return
	}
	return runBatch(*in, *out, 8, 8*time.Second, run, func(c map[string]any) map[string]any {
		return vlib.M{"id": c["id"], "k": c["k"], "hang": true}
	})
}

func runCode2(code *gojq.Code, v any, vars []any, maxOut int, budget time.Duration) runResult {
	return runCode(code, v, vars, maxOut, budget)
}
