package main

import (
	"bytes"
	"context"
	"encoding/json"
	"flag"
	"io"
	"os"
	"os/exec"
	"path/filepath"
	"strings"
	"time"

	"verif/harness/vlib"
)

// C16: run the real cmd/gojq binary on generated command lines, files and
// standard input, and record what it printed. No semantics here: stdout is
// decoded as a stream of JSON values (tagged encoding), stderr is reduced to
// the number of `gojq: ` reports, plus the exit status.

func init() {
	subcmds["c16run"] = cmdC16Run
}

func c16Bytes(x any) []byte {
	arr, _ := x.([]any)
	bs := make([]byte, 0, len(arr))
	for _, b := range arr {
		bs = append(bs, byte(b.(float64)))
	}
	return bs
}

func c16RunCase(gojq, base string, c map[string]any, timeout time.Duration) vlib.M {
	rec := vlib.M{"id": c["id"]}
	dir, err := os.MkdirTemp(base, "c")
	if err != nil {
		rec["tool"] = err.Error()
		return rec
	}
	defer os.RemoveAll(dir)
	if files, ok := c["files"].(map[string]any); ok {
		for name, content := range files {
			if err := os.WriteFile(filepath.Join(dir, name), c16Bytes(content), 0o644); err != nil {
				rec["tool"] = err.Error()
				return rec
			}
		}
	}
	args := []string{}
	for _, a := range c["args"].([]any) {
		args = append(args, string(c16Bytes(a)))
	}
	ctx, cancel := context.WithTimeout(context.Background(), timeout)
	defer cancel()
	cmd := exec.CommandContext(ctx, gojq, args...)
	cmd.Dir = dir
	cmd.Env = []string{"HOME=" + dir, "NO_COLOR=1", "PATH=/usr/bin:/bin"}
	cmd.Stdin = bytes.NewReader(c16Bytes(c["stdin"]))
	stdout, stderr := &capBuffer{max: 32 << 20}, &capBuffer{max: 4 << 20}
	cmd.Stdout, cmd.Stderr = stdout, stderr
	err = cmd.Run()
	exit := 0
	if err != nil {
		if ee, ok := err.(*exec.ExitError); ok {
			exit = ee.ExitCode()
		} else {
			rec["tool"] = err.Error()
			return rec
		}
	}
	if ctx.Err() != nil {
		rec["timeout"] = true
	}
	rec["exit"] = exit
	out := []any{}
	outbad := false
	dec := json.NewDecoder(bytes.NewReader(stdout.Bytes()))
	dec.UseNumber()
	for {
		var v any
		if err := dec.Decode(&v); err != nil {
			if err != io.EOF {
				outbad = true
			}
			break
		}
		out = append(out, vlib.EncVal(v))
	}
	rec["out"] = out
	rec["outbad"] = outbad
	nerr := 0
	es := stderr.String()
	for _, line := range strings.Split(es, "\n") {
		if strings.HasPrefix(line, "gojq: ") {
			nerr++
		}
	}
	rec["nerr"] = nerr
	rec["crash"] = exit < 0 || exit > 5 || strings.Contains(es, "panic:") || strings.Contains(es, "goroutine ") || strings.Contains(es, "fatal error")
	if len(es) > 600 {
		es = es[:600]
	}
	rec["stderr"] = es
	so := stdout.String()
	if len(so) > 600 {
		so = so[:600]
	}
	rec["stdout"] = so
	return rec
}

// cmdC16Run: cases {id, args:[[bytes]], files:{name:[bytes]}, stdin:[bytes]} -> {id, exit, out, outbad, nerr, crash, stderr, stdout}.
func cmdC16Run(args []string) error {
	fs := flag.NewFlagSet("c16run", flag.ExitOnError)
	in := fs.String("in", "", "cases ndjson")
	out := fs.String("out", "", "results ndjson")
	gojq := fs.String("gojq", "", "path of the gojq binary")
	base := fs.String("tmp", "", "directory for the per-case working directories")
	par := fs.Int("j", 8, "parallel workers")
	timeout := fs.Duration("timeout", 10*time.Second, "time per invocation")
	fs.Parse(args)
	var cases []map[string]any
	if err := readNDJSON(*in, func(c map[string]any) error { cases = append(cases, c); return nil }); err != nil {
		return err
	}
	recs := make([]vlib.M, len(cases))
	parallel(len(cases), *par, func(i int) { recs[i] = c16RunCase(*gojq, *base, cases[i], *timeout) })
	w, err := newNDWriter(*out)
	if err != nil {
		return err
	}
	for _, r := range recs {
		if err := w.write(r); err != nil {
			return err
		}
	}
	return w.close()
}
