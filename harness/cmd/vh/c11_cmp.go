package main

import (
	"encoding/json"
	"flag"
	"fmt"
	"strings"

	"github.com/itchyny/gojq"

	"verif/harness/vlib"
)

func init() { subcmds["cmp"] = cmdCmp }

// cmdCmp: the universe (one tagged value per line) -> for each pair of Go representations, the full matrix of
// gojq.Compare results: {"reps":[r1,r2], "rows":[[c...]...]} (or "panic").
func cmdCmp(args []string) error {
	fs := flag.NewFlagSet("cmp", flag.ExitOnError)
	in := fs.String("in", "", "universe ndjson")
	out := fs.String("out", "", "matrices ndjson")
	fs.Parse(args)
	var uni []any
	if err := readNDJSON(*in, func(m map[string]any) error { uni = append(uni, m); return nil }); err != nil {
		return err
	}
	w, err := newNDWriter(*out)
	if err != nil {
		return err
	}
	reps := [][2]vlib.Rep{{vlib.RepNative, vlib.RepNative}, {vlib.RepBig, vlib.RepNative}, {vlib.RepJSON, vlib.RepJSON},
		{vlib.RepFloat, vlib.RepNative}, {vlib.RepNative, vlib.RepJSON}, {vlib.RepFloat, vlib.RepBig}, {vlib.RepJSON, vlib.RepFloat}}
	for _, rp := range reps {
		rec := vlib.M{"reps": []int{int(rp[0]), int(rp[1])}}
		rows := make([][]int, len(uni))
		func() {
			defer func() {
				if e := recover(); e != nil {
					rec["panic"] = fmt.Sprint(e)
				}
			}()
			for i, a := range uni {
				rows[i] = make([]int, len(uni))
				for j, b := range uni {
					rows[i][j] = gojq.Compare(vlib.DecVal(a, rp[0]), vlib.DecVal(b, rp[1]))
				}
			}
		}()
		rec["rows"] = rows
		if err := w.write(rec); err != nil {
			return err
		}
	}
	// operands that SHARE MEMORY: a prefix of an array taken as a slice of the very same array, an object compared with itself, and
	// both nested one level down.  The order is a function of the values: sharing must not change any entry of the matrix.
	for _, nest := range []bool{false, true} {
		rec := vlib.M{"reps": []int{9, map[bool]int{false: 9, true: 10}[nest]}}
		rows := make([][]int, len(uni))
		func() {
			defer func() {
				if e := recover(); e != nil {
					rec["panic"] = fmt.Sprint(e)
				}
			}()
			for i, a := range uni {
				rows[i] = make([]int, len(uni))
				for j, b := range uni {
					x, y := vlib.DecVal(a, vlib.RepNative), vlib.DecVal(b, vlib.RepNative)
					if xs, ok := x.([]any); ok {
						if ys, ok := y.([]any); ok && len(ys) <= len(xs) && gojq.Compare(xs[:len(ys)], ys) == 0 {
							y = xs[:len(ys):len(ys)] // the same backing array
						}
						if ys, ok := y.([]any); ok && len(xs) < len(ys) && gojq.Compare(ys[:len(xs)], xs) == 0 {
							x = ys[:len(xs):len(xs)]
						}
					} else if _, ok := x.(map[string]any); ok && gojq.Compare(x, y) == 0 {
						y = x // the same map
					}
					if nest {
						x, y = []any{x, 1}, []any{y, 1}
					}
					rows[i][j] = gojq.Compare(x, y)
				}
			}
		}()
		rec["rows"] = rows
		if err := w.write(rec); err != nil {
			return err
		}
	}
	return w.close()
}

func init() { subcmds["ties"] = cmdTies }

// cmdTies: cases {id, src, text}: the input is the JSON text decoded with UseNumber (so that equal numbers keep their different
// spellings), the outputs are returned as the texts gojq.Marshal writes: which of several EQUAL elements a consumer of the
// order picked / in which order it left them is visible through the spellings.
func cmdTies(args []string) error {
	fs := flag.NewFlagSet("ties", flag.ExitOnError)
	in := fs.String("in", "", "cases ndjson")
	out := fs.String("out", "", "results ndjson")
	fs.Parse(args)
	w, err := newNDWriter(*out)
	if err != nil {
		return err
	}
	err = readNDJSON(*in, func(c map[string]any) error {
		rec := vlib.M{"id": c["id"]}
		defer func() {
			if e := recover(); e != nil {
				rec["panic"] = fmt.Sprint(e)
				w.write(rec)
			}
		}()
		q, err := gojq.Parse(c["src"].(string))
		if err != nil {
			rec["perr"] = err.Error()
			return w.write(rec)
		}
		dec := json.NewDecoder(strings.NewReader(c["text"].(string)))
		dec.UseNumber()
		var v any
		if err := dec.Decode(&v); err != nil {
			rec["perr"] = err.Error()
			return w.write(rec)
		}
		outs := []any{}
		it := q.Run(v)
		for len(outs) < 50 {
			x, ok := it.Next()
			if !ok {
				break
			}
			if e, ok := x.(error); ok {
				rec["err"] = e.Error()
				break
			}
			b, err := gojq.Marshal(x)
			if err != nil {
				rec["err"] = err.Error()
				break
			}
			outs = append(outs, string(b))
		}
		rec["out"] = outs
		return w.write(rec)
	})
	if err != nil {
		return err
	}
	return w.close()
}
