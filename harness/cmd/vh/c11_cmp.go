package main

import (
	"flag"
	"fmt"

	"github.com/itchyny/gojq"

	"verif/harness/vlib"
)

func init() { subcmds["cmp"] = cmdCmp }

// cmdCmp: the universe (one tagged value per line) -> for each pair of Go representations, the full matrix of
// gojq.Compare results: {"reps":[r1,r2], "rows":[[c...]...]} (or "panic").
func cmdCmp(args []string) error {
	fs := flag.NewFlagSet("cmp", flag.ExitOnError)
	in := fs.String("in", "", "universe ndjson")
	out := fs.String("out", "", "matrices ndjson")
	fs.Parse(args)
	var uni []any
	if err := readNDJSON(*in, func(m map[string]any) error { uni = append(uni, m); return nil }); err != nil {
		return err
	}
	w, err := newNDWriter(*out)
	if err != nil {
		return err
	}
	reps := [][2]vlib.Rep{{vlib.RepNative, vlib.RepNative}, {vlib.RepBig, vlib.RepNative}, {vlib.RepJSON, vlib.RepJSON},
		{vlib.RepFloat, vlib.RepNative}, {vlib.RepNative, vlib.RepJSON}, {vlib.RepFloat, vlib.RepBig}, {vlib.RepJSON, vlib.RepFloat}}
	for _, rp := range reps {
		rec := vlib.M{"reps": []int{int(rp[0]), int(rp[1])}}
		rows := make([][]int, len(uni))
		func() {
			defer func() {
				if e := recover(); e != nil {
					rec["panic"] = fmt.Sprint(e)
				}
			}()
			for i, a := range uni {
				rows[i] = make([]int, len(uni))
				for j, b := range uni {
					rows[i][j] = gojq.Compare(vlib.DecVal(a, rp[0]), vlib.DecVal(b, rp[1]))
				}
			}
		}()
		rec["rows"] = rows
		if err := w.write(rec); err != nil {
			return err
		}
	}
	return w.close()
}
