// Command vh is the Go side of the verification pipeline: it replays
// generated cases on the real gojq (built from /repo's working tree with
// -tags verif) and records what happened as ndjson for the TLA+ trace
// specifications. Sub-commands register themselves in init().
package main

import (
	"bufio"
	"encoding/json"
	"fmt"
	"os"
	"sort"
)

type subcmd func(args []string) error

var subcmds = map[string]subcmd{}

func main() {
	if len(os.Args) < 2 || subcmds[os.Args[1]] == nil {
		names := []string{}
		for n := range subcmds {
			names = append(names, n)
		}
		sort.Strings(names)
		fmt.Fprintln(os.Stderr, "usage: vh <subcommand> ...; subcommands:", names)
		os.Exit(2)
	}
	if err := subcmds[os.Args[1]](os.Args[2:]); err != nil {
		fmt.Fprintln(os.Stderr, "vh:", err)
		os.Exit(2)
	}
}

// readNDJSON calls f for every line of the file.
func readNDJSON(path string, f func(map[string]any) error) error {
	fh, err := os.Open(path)
	if err != nil {
		return err
	}
	defer fh.Close()
	sc := bufio.NewScanner(fh)
	sc.Buffer(make([]byte, 1<<20), 1<<28)
	for sc.Scan() {
		if len(sc.Bytes()) == 0 {
			continue
		}
		var m map[string]any
		if err := json.Unmarshal(sc.Bytes(), &m); err != nil {
			return fmt.Errorf("%s: %v", path, err)
		}
		if err := f(m); err != nil {
			return err
		}
	}
	return sc.Err()
}

type ndWriter struct {
	f *os.File
	w *bufio.Writer
}

func newNDWriter(path string) (*ndWriter, error) {
	f, err := os.Create(path)
	if err != nil {
		return nil, err
	}
	return &ndWriter{f, bufio.NewWriterSize(f, 1<<20)}, nil
}

func (w *ndWriter) write(v any) error {
	b, err := json.Marshal(v)
	if err != nil {
		return err
	}
	w.w.Write(b)
	return w.w.WriteByte('\n')
}

func (w *ndWriter) close() error {
	if err := w.w.Flush(); err != nil {
		return err
	}
	return w.f.Close()
}
