package main

import (
	"flag"

	"github.com/itchyny/gojq"

	"verif/harness/vlib"
)

func init() { subcmds["pstack"] = cmdPStack }

type pstack interface {
	Pop() any
	Empty() bool
	Save() (int, int)
	Restore(int, int)
	State() (int, int, int)
	Contents() []any
}

type scopeAdapter struct{ *gojq.VerifScopeStack }

func (s scopeAdapter) Pop() any { return s.VerifScopeStack.Pop() }

// cmdPStack: cases {id, kind: "stack"|"scope", ops: [{op: push|pop|save|restore, arg: int}]} -> observed states.
// Illegal operations (pop on empty, restore without a save) are skipped and not recorded.
func cmdPStack(args []string) error {
	fs := flag.NewFlagSet("pstack", flag.ExitOnError)
	in := fs.String("in", "", "cases")
	out := fs.String("out", "", "trace")
	fs.Parse(args)
	w, err := newNDWriter(*out)
	if err != nil {
		return err
	}
	err = readNDJSON(*in, func(c map[string]any) error {
		var st pstack
		var push func(int)
		if c["kind"] == "scope" {
			s := gojq.VerifNewScopeStack()
			st, push = scopeAdapter{s}, s.Push
		} else {
			s := gojq.VerifNewStack()
			st, push = s, func(v int) { s.Push(v) }
		}
		type saved struct{ i, l int }
		var forks []saved
		ops := []any{}
		for _, o := range c["ops"].([]any) {
			m := o.(map[string]any)
			rec := vlib.M{"op": m["op"]}
			switch m["op"] {
			case "push":
				v := int(m["arg"].(float64))
				push(v)
				rec["arg"] = v
			case "pop":
				if st.Empty() {
					continue
				}
				rec["popped"] = st.Pop()
			case "save":
				i, l := st.Save()
				forks = append(forks, saved{i, l})
			case "restore":
				if len(forks) == 0 {
					continue
				}
				f := forks[len(forks)-1]
				forks = forks[:len(forks)-1]
				st.Restore(f.i, f.l)
			}
			i, l, n := st.State()
			rec["index"], rec["limit"], rec["len"], rec["contents"] = i+1, l+1, n, st.Contents()
			ops = append(ops, rec)
		}
		return w.write(vlib.M{"id": c["id"], "ops": ops})
	})
	if err != nil {
		return err
	}
	return w.close()
}
