package main

// C09: recording sub-command for the parser / printer property.
//
//	vh c09parse -in cases.ndjson -out trace.ndjson [-light light.ndjson] [-noast]
//
// A case is {id, src | srcB, vars?: [[byte...]...], tn?: bool}. The source is
// handed to the real gojq.Parse; the record says what happened:
//
//	{id, srcB, ok, ast, printed, rt:{ok, equal, idem}, err:{kind, offset, token}, vars:[{ok, equal}], tn:{ok}}
//
// ast is the *complete* gojq.Query (every exported field, zero or not) in a
// generic reflection encoding (c09Enc) the TLA+ parser model reproduces.
// Nothing here knows the grammar: equality is reflect.DeepEqual, printing is
// Query.String(), and the comparison with the specification is done by TLC.

import (
	"flag"
	"fmt"
	"reflect"
	"strings"

	"github.com/itchyny/gojq"

	"verif/harness/vlib"
)

func init() { subcmds["c09parse"] = cmdC09Parse }

// c09Enc encodes a value of the AST generically. struct -> {"k": type name,
// one entry per exported field}; nil pointer -> {"k":"nil"}; slice -> array
// (nil and empty alike); string -> array of code points; bool -> bool;
// Operator -> its String() ("" for zero); TermType -> its constant name ("" for zero).
func c09Enc(v reflect.Value) any {
	switch v.Kind() {
	case reflect.Ptr:
		if v.IsNil() {
			return vlib.M{"k": "nil"}
		}
		return c09Enc(v.Elem())
	case reflect.Struct:
		t := v.Type()
		m := vlib.M{"k": t.Name()}
		for i := 0; i < t.NumField(); i++ {
			if f := t.Field(i); f.IsExported() {
				m[f.Name] = c09Enc(v.Field(i))
			}
		}
		return m
	case reflect.Slice:
		xs := make([]any, v.Len())
		for i := range xs {
			xs[i] = c09Enc(v.Index(i))
		}
		return xs
	case reflect.String:
		return vlib.Cps(v.String())
	case reflect.Bool:
		return v.Bool()
	case reflect.Int:
		switch x := v.Interface().(type) {
		case gojq.Operator:
			if x == 0 {
				return ""
			}
			return x.String()
		case gojq.TermType:
			if x == 0 {
				return ""
			}
			return strings.TrimPrefix(x.GoString(), "gojq.")
		}
		return int(v.Int())
	}
	panic(fmt.Sprintf("c09Enc: unsupported kind %s (%s)", v.Kind(), v.Type()))
}

func c09Bytes(s string) []any {
	bs := make([]any, len(s))
	for i := 0; i < len(s); i++ {
		bs[i] = int(s[i])
	}
	return bs
}

func c09Src(c map[string]any, key string) (string, bool) {
	if s, ok := c[key].(string); ok {
		return s, true
	}
	if bs, ok := c[key+"B"].([]any); ok {
		return c09FromBytes(bs), true
	}
	return "", false
}

func c09FromBytes(bs []any) string {
	b := make([]byte, len(bs))
	for i, x := range bs {
		b[i] = byte(x.(float64))
	}
	return string(b)
}

// c09ParseGuard calls the real parser, turning a panic into a field of the record.
func c09ParseGuard(src string) (q *gojq.Query, err error, pan string) {
	defer func() {
		if e := recover(); e != nil {
			pan = fmt.Sprint(e)
		}
	}()
	q, err = gojq.Parse(src)
	return
}

func c09ErrKind(msg string) string {
	switch {
	case msg == "unexpected EOF":
		return "eof"
	case strings.HasPrefix(msg, "invalid token"):
		return "invalid"
	case strings.HasPrefix(msg, "invalid escape sequence"):
		return "escape"
	case msg == "unterminated string literal":
		return "unterminated"
	case strings.HasPrefix(msg, "unexpected token"):
		return "unexpected"
	}
	return "other"
}

var c09Tonumber *gojq.Code

func c09Case(c map[string]any, withAST bool) vlib.M {
	rec := vlib.M{"id": c["id"]}
	src, ok := c09Src(c, "src")
	if !ok {
		rec["bad"] = "no src"
		return rec
	}
	rec["srcB"] = c09Bytes(src)
	if tag, ok := c["tag"]; ok {
		rec["tag"] = tag
	}
	q, err, pan := c09ParseGuard(src)
	if pan != "" {
		rec["panic"] = pan
		return rec
	}
	if err != nil {
		rec["ok"] = false
		e := vlib.M{"kind": c09ErrKind(err.Error()), "msg": err.Error()}
		if pe, ok := err.(*gojq.ParseError); ok {
			e["offset"] = pe.Offset
			e["token"] = c09Bytes(pe.Token)
		}
		rec["err"] = e
	} else {
		rec["ok"] = true
		if withAST {
			rec["ast"] = c09Enc(reflect.ValueOf(q))
		}
		var printed string
		func() {
			defer func() {
				if e := recover(); e != nil {
					rec["panic"] = "String(): " + fmt.Sprint(e)
				}
			}()
			printed = q.String()
		}()
		if rec["panic"] != nil {
			return rec
		}
		rec["printed"] = c09Bytes(printed)
		rt := vlib.M{}
		q2, err2, pan2 := c09ParseGuard(printed)
		switch {
		case pan2 != "":
			rec["panic"] = "reparse: " + pan2
			return rec
		case err2 != nil:
			rt["ok"] = false
			rt["msg"] = err2.Error()
		default:
			rt["ok"] = true
			rt["equal"] = reflect.DeepEqual(q, q2)
			rt["idem"] = q2.String() == printed
			if !rt["equal"].(bool) {
				rt["ast2"] = c09Enc(reflect.ValueOf(q2))
			}
		}
		rec["rt"] = rt
	}
	// re-spacings of the same source
	if vs, ok := c["vars"].([]any); ok {
		out := []any{}
		for _, v := range vs {
			vsrc := c09FromBytes(v.([]any))
			r := vlib.M{"b": v}
			q2, err2, pan2 := c09ParseGuard(vsrc)
			switch {
			case pan2 != "":
				r["panic"] = pan2
			case err2 != nil:
				r["ok"] = false
				r["msg"] = err2.Error()
			default:
				r["ok"] = true
				r["equal"] = q != nil && reflect.DeepEqual(q, q2)
			}
			out = append(out, r)
		}
		rec["vars"] = out
	}
	// the string handed to tonumber (lexer.validNumber)
	if tn, _ := c["tn"].(bool); tn {
		r := vlib.M{}
		func() {
			defer func() {
				if e := recover(); e != nil {
					r["panic"] = fmt.Sprint(e)
				}
			}()
			it := c09Tonumber.Run(src)
			v, _ := it.Next()
			if e, isErr := v.(error); isErr {
				r["ok"] = false
				r["msg"] = e.Error()
			} else {
				r["ok"] = true
				r["v"] = vlib.EncVal(v)
			}
		}()
		rec["tn"] = r
	}
	return rec
}

func cmdC09Parse(args []string) error {
	fs := flag.NewFlagSet("c09parse", flag.ExitOnError)
	in := fs.String("in", "", "cases ndjson")
	out := fs.String("out", "", "trace ndjson")
	noast := fs.Bool("noast", false, "do not include the AST")
	light := fs.String("light", "", "also write the records without ast / ast2 (for the classification) to this file")
	par := fs.Int("j", 8, "parallel workers")
	fs.Parse(args)
	q, err := gojq.Parse("tonumber")
	if err != nil {
		return err
	}
	if c09Tonumber, err = gojq.Compile(q); err != nil {
		return err
	}
	var cases []map[string]any
	if err := readNDJSON(*in, func(c map[string]any) error { cases = append(cases, c); return nil }); err != nil {
		return err
	}
	recs := make([]vlib.M, len(cases))
	parallel(len(cases), *par, func(i int) { recs[i] = c09Case(cases[i], !*noast) })
	w, err := newNDWriter(*out)
	if err != nil {
		return err
	}
	for _, r := range recs {
		if err := w.write(r); err != nil {
			return err
		}
	}
	if err := w.close(); err != nil {
		return err
	}
	if *light == "" {
		return nil
	}
	lw, err := newNDWriter(*light)
	if err != nil {
		return err
	}
	for _, r := range recs {
		delete(r, "ast")
		if rt, ok := r["rt"].(vlib.M); ok {
			delete(rt, "ast2")
		}
		if err := lw.write(r); err != nil {
			return err
		}
	}
	return lw.close()
}
