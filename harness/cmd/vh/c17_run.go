package main

// C17 - error positions.  Generic replay/recording for the check:
//
//	vh c17run -in cases.ndjson -out trace.ndjson -gojq build/gojq -tmp dir [-j N]
//
// A case describes an input text run-length encoded ("text": [{"u":[bytes],"n":k},...]),
// how it reaches the command (file, redirect = seekable stdin, pipe with a write schedule)
// and the arguments.  The real binary is executed; exit status and stderr are recorded, the
// three lines of the position report are split into (name, line, quoted bytes, caret index).
// For the environment (stdlib / third-party decoders the specification does not model) the
// same bytes are decoded here with encoding/json resp. go-yaml resp. gojq.Parse and the
// value extents / error index they report are logged next to the observation.
// No expectation is computed here.

import (
	"bytes"
	"encoding/json"
	"errors"
	"flag"
	"fmt"
	"io"
	"os"
	"os/exec"
	"path/filepath"
	"regexp"
	"strconv"
	"strings"
	"syscall"
	"time"
	"unsafe"

	"github.com/itchyny/go-yaml"
	"github.com/itchyny/gojq"
)

func init() {
	subcmds["c17run"] = cmdC17Run
}

type c17Seg struct {
	U []int `json:"u"`
	N int   `json:"n"`
}

type c17Case struct {
	ID        int        `json:"id"`
	Kind      string     `json:"kind"` // json | yaml | query | lib
	Text      []c17Seg   `json:"text"`
	Transport string     `json:"transport,omitempty"` // file | redirect | pipe | none
	CB        []int      `json:"cb,omitempty"`        // pipe: write boundaries (absolute positions)
	Before    [][]c17Seg `json:"before,omitempty"`    // valid files given before the faulty input
	Args      []string   `json:"args,omitempty"`
	Name      string     `json:"name,omitempty"` // file name to use
}

func c17Bytes(t []c17Seg) []byte {
	var b bytes.Buffer
	for _, s := range t {
		u := make([]byte, len(s.U))
		for i, x := range s.U {
			u[i] = byte(x)
		}
		for i := 0; i < s.N; i++ {
			b.Write(u)
		}
	}
	return b.Bytes()
}

func c17Ints(b []byte) []int {
	r := make([]int, len(b))
	for i, x := range b {
		r[i] = int(x)
	}
	return r
}

func fionread(f *os.File) (int, error) {
	var n int32
	_, _, e := syscall.Syscall(syscall.SYS_IOCTL, f.Fd(), 0x541B, uintptr(unsafe.Pointer(&n)))
	if e != 0 {
		return 0, e
	}
	return int(n), nil
}

// feedPipe writes data in the chunks given by the boundaries; a chunk is written only when
// the pipe is empty, so every read of the child sees min(request, rest of the chunk).
func feedPipe(w *os.File, data []byte, cb []int, first chan<- struct{}, done <-chan struct{}) {
	defer w.Close()
	bounds := append(append([]int{}, cb...), len(data))
	pos := 0
	started := false
	for _, b := range bounds {
		if b > len(data) {
			b = len(data)
		}
		if b <= pos {
			continue
		}
		if started {
			for {
				n, err := fionread(w)
				if err != nil || n == 0 {
					break
				}
				select {
				case <-done:
					return
				case <-time.After(30 * time.Microsecond):
				}
			}
		}
		if _, err := w.Write(data[pos:b]); err != nil {
			return
		}
		pos = b
		if !started {
			started = true
			close(first)
		}
	}
	if !started {
		close(first)
	}
}

var c17Head = regexp.MustCompile(`(?s)^(.*?)invalid (json|query|yaml): (.*)$`)
var c17Multi = regexp.MustCompile(`(?s)^(.*):(\d+)$`)

// parseReport splits the report at the end of stderr.
func c17ParseReport(stderr []byte) map[string]any {
	lines := bytes.Split(bytes.TrimSuffix(stderr, []byte("\n")), []byte("\n"))
	// the report is made of the last three lines: head, quoted line, caret line
	if len(lines) < 3 {
		return map[string]any{"fmt": "none"}
	}
	head, quoted, caret := lines[len(lines)-3], lines[len(lines)-2], lines[len(lines)-1]
	m := c17Head.FindSubmatch(head)
	if m == nil {
		return map[string]any{"fmt": "none"}
	}
	obs := map[string]any{"what": string(m[2]), "prefix": string(m[1])}
	ci := bytes.IndexByte(caret, '^')
	if ci < 0 || len(bytes.TrimLeft(caret[:ci], " ")) != 0 {
		return map[string]any{"fmt": "none"}
	}
	if i := ci + 3; i <= len(caret) {
		obs["msg"] = string(caret[i:])
	}
	if mm := c17Multi.FindSubmatch(m[3]); mm != nil && bytes.HasPrefix(quoted, []byte("    "+string(mm[2])+" | ")) {
		l := len(mm[2])
		ln, _ := strconv.Atoi(string(mm[2]))
		obs["fmt"], obs["name"], obs["line"] = "multi", string(mm[1]), ln
		obs["ex"] = c17Ints(quoted[l+7:])
		obs["col"] = ci - (l + 7)
		return obs
	}
	if !bytes.HasPrefix(quoted, []byte("    ")) {
		return map[string]any{"fmt": "none"}
	}
	obs["fmt"], obs["name"] = "single", string(m[3])
	obs["ex"] = c17Ints(quoted[4:])
	obs["col"] = ci - 4
	return obs
}

// c17EnvJSON logs what encoding/json finds in the bytes: value ends (as runs) and the error.
func c17EnvJSON(data []byte) map[string]any {
	dec := json.NewDecoder(bytes.NewReader(data))
	dec.UseNumber()
	type run struct{ e, w, n, d int }
	var runs []run
	prev := -1
	env := map[string]any{}
	for {
		var v any
		err := dec.Decode(&v)
		if err != nil {
			switch e := err.(type) {
			case *json.SyntaxError:
				env["err"] = map[string]any{"k": "syntax", "p": int(e.Offset) - 1}
			default:
				if err == io.ErrUnexpectedEOF {
					env["err"] = map[string]any{"k": "eof"}
				} else if err == io.EOF {
					env["err"] = map[string]any{"k": "none"}
				} else {
					env["err"] = map[string]any{"k": "other", "msg": err.Error()}
				}
			}
			break
		}
		end := int(dec.InputOffset())
		d := 1
		if c := data[end-1]; c == ']' || c == '}' {
			d = 0
		}
		if k := len(runs) - 1; k >= 0 && runs[k].d == d && (runs[k].n == 1 || end-prev == runs[k].w) {
			if runs[k].n == 1 {
				runs[k].w = end - prev
			}
			runs[k].n++
		} else {
			runs = append(runs, run{end, 1, 1, d})
		}
		prev = end
	}
	vs := []any{}
	for _, r := range runs {
		vs = append(vs, map[string]any{"e": r.e, "w": r.w, "n": r.n, "d": r.d})
	}
	env["vals"] = vs
	return env
}

// c17EnvJSONStream logs the error the token API of encoding/json reports (what --stream is built on).
func c17EnvJSONStream(data []byte) map[string]any {
	dec := json.NewDecoder(bytes.NewReader(data))
	dec.UseNumber()
	depth := 0
	for {
		tok, err := dec.Token()
		if err != nil {
			switch e := err.(type) {
			case *json.SyntaxError:
				return map[string]any{"err": map[string]any{"k": "syntax", "p": int(e.Offset) - 1}}
			}
			if err == io.ErrUnexpectedEOF || err == io.EOF && depth > 0 {
				return map[string]any{"err": map[string]any{"k": "eof"}}
			} else if err == io.EOF {
				return map[string]any{"err": map[string]any{"k": "none"}}
			}
			return map[string]any{"err": map[string]any{"k": "other", "msg": err.Error()}}
		}
		if d, ok := tok.(json.Delim); ok {
			if d == '[' || d == '{' {
				depth++
			} else {
				depth--
			}
		}
	}
}

func c17EnvYAML(data []byte) map[string]any {
	dec := yaml.NewDecoder(bytes.NewReader(data))
	for {
		var v any
		err := dec.Decode(&v)
		if err == nil {
			continue
		}
		if err == io.EOF {
			return map[string]any{"err": map[string]any{"k": "none"}}
		}
		var pe *yaml.ParserError
		var te *yaml.TypeError
		if errors.As(err, &pe) {
			return map[string]any{"err": map[string]any{"k": "syntax", "p": pe.Index}, "msg": pe.Message}
		} else if errors.As(err, &te) {
			var ue *yaml.UnmarshalError
			for _, e := range te.Errors {
				if errors.As(e, &ue) {
					return map[string]any{"err": map[string]any{"k": "syntax", "p": ue.Index}, "msg": ue.Err.Error()}
				}
			}
		}
		return map[string]any{"err": map[string]any{"k": "other", "msg": err.Error()}}
	}
}

func c17EnvQuery(data []byte) (env map[string]any) {
	env = map[string]any{}
	defer func() {
		if e := recover(); e != nil {
			env["panic"] = fmt.Sprint(e)
		}
	}()
	_, err := gojq.Parse(string(data))
	if err == nil {
		env["err"] = map[string]any{"k": "none"}
		return
	}
	var pe *gojq.ParseError
	if errors.As(err, &pe) {
		env["err"] = map[string]any{"k": "parse", "off": pe.Offset, "tok": c17Ints([]byte(pe.Token)), "msg": pe.Error()}
	} else {
		env["err"] = map[string]any{"k": "other", "msg": err.Error()}
	}
	return
}

func c17RunOne(c *c17Case, gojqBin, tmp string) map[string]any {
	rec := map[string]any{"id": c.ID}
	data := c17Bytes(c.Text)
	switch c.Kind {
	case "json":
		rec["env"] = c17EnvJSON(data)
	case "jsonstream":
		rec["env"] = c17EnvJSONStream(data)
	case "yaml":
		rec["env"] = c17EnvYAML(data)
	case "query", "lib":
		rec["env"] = c17EnvQuery(data)
	}
	if c.Kind == "lib" {
		return rec
	}
	dir := filepath.Join(tmp, fmt.Sprintf("c%d", c.ID))
	if err := os.MkdirAll(dir, 0o755); err != nil {
		rec["tool"] = err.Error()
		return rec
	}
	defer os.RemoveAll(dir)
	name := c.Name
	if name == "" {
		name = "in.dat"
	}
	var before []string
	for i, t := range c.Before {
		p := fmt.Sprintf("b%d.json", i)
		if err := os.WriteFile(filepath.Join(dir, p), c17Bytes(t), 0o644); err != nil {
			rec["tool"] = err.Error()
			return rec
		}
		before = append(before, p)
	}
	var stdin *os.File
	var pw *os.File
	// arguments: @FILE@ -> name of the file holding the text, @TEXT@ -> the text itself,
	// @BEFORE@ -> the names of the preceding valid files
	var args []string
	for _, a := range c.Args {
		switch a {
		case "@FILE@":
			args = append(args, name)
		case "@TEXT@":
			args = append(args, string(data))
		case "@BEFORE@":
			args = append(args, before...)
		default:
			args = append(args, a)
		}
	}
	switch c.Transport {
	case "file", "redirect":
		if err := os.WriteFile(filepath.Join(dir, name), data, 0o644); err != nil {
			rec["tool"] = err.Error()
			return rec
		}
		if c.Transport == "redirect" {
			f, err := os.Open(filepath.Join(dir, name))
			if err != nil {
				rec["tool"] = err.Error()
				return rec
			}
			defer f.Close()
			stdin = f
		}
	case "pipe":
		r, w, err := os.Pipe()
		if err != nil {
			rec["tool"] = err.Error()
			return rec
		}
		// room for the largest chunk, so that one write is one atomic hand-over
		need, prev := 0, 0
		for _, b := range append(append([]int{}, c.CB...), len(data)) {
			if b-prev > need {
				need = b - prev
			}
			if b > prev {
				prev = b
			}
		}
		if need > 65536 {
			if _, _, e := syscall.Syscall(syscall.SYS_FCNTL, w.Fd(), 1031 /* F_SETPIPE_SZ */, uintptr(need)); e != 0 {
				r.Close()
				w.Close()
				rec["tool"] = "F_SETPIPE_SZ: " + e.Error()
				return rec
			}
		}
		stdin, pw = r, w
	case "none":
	default:
		rec["tool"] = "unknown transport " + c.Transport
		return rec
	}
	cmd := exec.Command(gojqBin, args...)
	cmd.Dir = dir
	cmd.Env = []string{"LANG=C", "LC_ALL=C", "HOME=" + dir, "NO_COLOR=1"}
	var stderr bytes.Buffer
	cmd.Stderr = &stderr
	cmd.Stdout = nil
	if stdin != nil {
		cmd.Stdin = stdin
	}
	done := make(chan struct{})
	if pw != nil {
		first := make(chan struct{})
		go feedPipe(pw, data, c.CB, first, done)
		<-first
	}
	if err := cmd.Start(); err != nil {
		close(done)
		rec["tool"] = err.Error()
		return rec
	}
	if pw != nil {
		stdin.Close() // our copy of the read end
	}
	werr := make(chan error, 1)
	go func() { werr <- cmd.Wait() }()
	select {
	case err := <-werr:
		close(done)
		rc := 0
		if err != nil {
			var ee *exec.ExitError
			if errors.As(err, &ee) {
				rc = ee.ExitCode()
			} else {
				rec["tool"] = err.Error()
			}
		}
		rec["rc"] = rc
	case <-time.After(60 * time.Second):
		cmd.Process.Kill()
		<-werr
		close(done)
		rec["timeout"] = true
	}
	se := stderr.Bytes()
	if len(se) > 4096 {
		se = se[len(se)-4096:]
	}
	rec["stderr"] = strings.ToValidUTF8(string(se), "�")
	rec["obs"] = c17ParseReport(stderr.Bytes())
	return rec
}

func cmdC17Run(args []string) error {
	fs := flag.NewFlagSet("c17run", flag.ExitOnError)
	in := fs.String("in", "", "cases (ndjson)")
	out := fs.String("out", "", "trace (ndjson)")
	bin := fs.String("gojq", "", "the gojq binary")
	tmp := fs.String("tmp", "", "scratch directory")
	j := fs.Int("j", 8, "parallel executions")
	fs.Parse(args)
	var cases []*c17Case
	if err := readNDJSON(*in, func(m map[string]any) error {
		b, _ := json.Marshal(m)
		c := &c17Case{}
		if err := json.Unmarshal(b, c); err != nil {
			return err
		}
		cases = append(cases, c)
		return nil
	}); err != nil {
		return err
	}
	recs := make([]map[string]any, len(cases))
	parallel(len(cases), *j, func(i int) {
		recs[i] = c17RunOne(cases[i], *bin, *tmp)
	})
	w, err := newNDWriter(*out)
	if err != nil {
		return err
	}
	for _, r := range recs {
		if err := w.write(r); err != nil {
			return err
		}
	}
	return w.close()
}
