package main

import (
	"context"
	"flag"
	"fmt"
	"sync"
	"time"

	"github.com/itchyny/gojq"

	"verif/harness/vlib"
)

func init() { subcmds["vm"] = cmdVM }

var tracerMu sync.Mutex // VerifTracer and VerifOptMask are process-wide

// vmCase: {id, src, input, cancel, mask, extra (Next calls after false), noast}
func vmCase(c map[string]any, maxSteps, maxNext int) vlib.M {
	rec := vlib.M{"id": c["id"], "src": c["src"], "input": c["input"], "cancel": 0, "cut": false}
	cancel, mask, extra := 0, uint(0), 3
	if x, ok := c["cancel"].(float64); ok {
		cancel = int(x)
		rec["cancel"] = cancel
	}
	if x, ok := c["mask"].(float64); ok {
		mask = uint(x)
		rec["mask"] = int(mask)
	}
	if x, ok := c["extra"].(float64); ok {
		extra = int(x)
	}
	// "cancel_after": m - the CALLER cancels the context between two Next calls, after m results (m = 0: before the first call).
	// For the interpreter model this is a cancellation at the first poll of the following call: the record's "cancel" is set to that poll.
	cancelAfter := -1
	if x, ok := c["cancel_after"].(float64); ok {
		cancelAfter = int(x)
		rec["cancel_after"] = cancelAfter
	}
	q, err := gojq.Parse(c["src"].(string))
	if err != nil {
		rec["perr"] = err.Error()
		return rec
	}
	if c["noast"] != true {
		rec["ast"] = vlib.EncAST(q)
	}
	tracerMu.Lock()
	defer tracerMu.Unlock()
	gojq.VerifOptMask = mask
	var code *gojq.Code
	func() {
		defer func() {
			if e := recover(); e != nil {
				err = fmt.Errorf("PANIC in Compile: %v", e)
				rec["panic"] = fmt.Sprint(e)
			}
		}()
		code, err = gojq.Compile(q)
	}()
	gojq.VerifOptMask = 0
	if err != nil {
		rec["cerr"] = err.Error()
		return rec
	}
	rec["code"] = vlib.EncCode(gojq.VerifDump(code))
	steps := []gojq.VerifStep{}
	next := []any{}
	cut := false
	gojq.VerifTracer = func(s gojq.VerifStep) {
		if len(steps) < maxSteps {
			steps = append(steps, s)
		} else {
			cut = true
		}
	}
	defer func() { gojq.VerifTracer = nil }()
	func() {
		defer func() {
			if e := recover(); e != nil {
				rec["panic"] = fmt.Sprint(e)
			}
		}()
		// always run under the counting context: it cancels at poll `cancel` (C07) and is
		// also the budget guard (polls, wall clock, heap) that keeps runaway programs bounded
		ctx := newGuardCtx(cancel, maxSteps+1, 2*time.Second)
		it := code.RunWithContext(ctx, vlib.DecVal(c["input"], vlib.RepNative))
		deadline := time.Now().Add(2 * time.Second)
		falses := 0
		resumed := []any{}
		for len(next) < maxNext && !cut && time.Now().Before(deadline) {
			if cancelAfter >= 0 && len(next) == cancelAfter && falses == 0 && !ctx.fired {
				ctx.k, ctx.fired = ctx.n+1, true
				ctx.cancel(errGuardCause)
				rec["cancel"] = ctx.k
			}
			v, ok := it.Next()
			if !ok {
				falses++
				if falses > extra {
					break
				}
				continue
			}
			var r vlib.M
			if e, ok := v.(error); ok {
				if e == context.Canceled {
					if ctx.budget {
						cut = true
						break
					}
					r = vlib.M{"ctx": true}
				} else {
					r = vlib.M{"e": encErr(e)}
				}
			} else {
				r = vlib.M{"v": vlib.EncVal(v)}
			}
			if falses > 0 {
				resumed = append(resumed, r) // a result after Next returned false
			} else {
				next = append(next, r)
			}
		}
		if falses == 0 {
			cut = true
		}
		rec["falses"], rec["resumed"] = falses, resumed
		rec["polls"] = ctx.n
	}()
	rec["steps"], rec["next"], rec["cut"] = steps, next, cut
	return rec
}

func cmdVM(args []string) error {
	fs := flag.NewFlagSet("vm", flag.ExitOnError)
	in := fs.String("in", "", "cases ndjson")
	out := fs.String("out", "", "trace ndjson")
	maxSteps := fs.Int("maxsteps", 3000, "recorded steps per run")
	maxNext := fs.Int("maxnext", 60, "Next calls per run")
	fs.Parse(args)
	return runBatch(*in, *out, 1, 8*time.Second,
		func(c map[string]any, beat func()) map[string]any { return vmCase(c, *maxSteps, *maxNext) },
		func(c map[string]any) map[string]any {
			return vlib.M{"id": c["id"], "src": c["src"], "input": c["input"], "cancel": c["cancel"], "mask": c["mask"], "hang": true}
		})
}
