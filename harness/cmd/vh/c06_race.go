package main

import (
	"flag"
	"fmt"
	"os"
	"runtime"
	"sync"
	"time"

	"github.com/itchyny/gojq"

	"verif/harness/vlib"
)

func init() { subcmds["race"] = cmdRace }

// cmdRace (built with -race): cases {id, src, input, mode (aliasing mode of buildInput: plain/spare/shared/slices), g, shared, reps, gomaxprocs, parsedonly}.
// One compiled Code (or one parsed Query run through Query.Run) is run from g goroutines released by a barrier,
// on one shared input object or on distinct copies, reps times; every goroutine's output digests are compared
// with the solo run. A marker line "VH-CASE <id>" is written to stderr before each case so that the race
// detector's reports (also on stderr) can be attributed. Result: {id, solo: [digests], diverged: n, deadlock: bool}.
func cmdRace(args []string) error {
	fs := flag.NewFlagSet("race", flag.ExitOnError)
	in := fs.String("in", "", "cases")
	out := fs.String("out", "", "results")
	fs.Parse(args)
	w, err := newNDWriter(*out)
	if err != nil {
		return err
	}
	err = readNDJSON(*in, func(c map[string]any) error {
		fmt.Fprintf(os.Stderr, "VH-CASE %v\n", c["id"])
		rec := vlib.M{"id": c["id"], "src": c["src"]}
		q, err := gojq.Parse(c["src"].(string))
		if err != nil {
			rec["perr"] = err.Error()
			return w.write(rec)
		}
		code, err := gojq.Compile(q)
		if err != nil {
			rec["cerr"] = err.Error()
			return w.write(rec)
		}
		g, reps := int(c["g"].(float64)), int(c["reps"].(float64))
		if p, ok := c["gomaxprocs"].(float64); ok {
			defer runtime.GOMAXPROCS(runtime.GOMAXPROCS(int(p)))
		}
		shared := c["shared"] == true
		parsedOnly := c["parsedonly"] == true
		mode, _ := c["mode"].(string)
		mk := func() any { return buildInput(c["input"], mode) }
		runOne := func(v any) (ds []string) {
			defer func() {
				if e := recover(); e != nil {
					ds = append(ds, "PANIC:"+fmt.Sprint(e))
				}
			}()
			var it gojq.Iter
			ctx := newGuardCtx(0, 100000, 5*time.Second)
			if parsedOnly {
				it = q.RunWithContext(ctx, v)
			} else {
				it = code.RunWithContext(ctx, v)
			}
			for len(ds) < 30 {
				x, ok := it.Next()
				if !ok {
					break
				}
				if err, ok := x.(error); ok {
					if ctx.budget {
						// ended by a budget of the harness (wall clock, process heap), not by the library: no verdict from this run
						return []string{"BUDGET"}
					}
					ds = append(ds, "E:"+fmt.Sprintf("%T", err))
					break
				}
				ds = append(ds, digest(x))
			}
			return
		}
		solo := runOne(mk())
		rec["solo"] = solo
		diverged, budget := 0, 0
		var mu sync.Mutex
		var first []string
		done := make(chan struct{})
		go func() {
			defer close(done)
			for r := 0; r < reps; r++ {
				var sh any
				if shared {
					sh = mk()
				}
				start := make(chan struct{})
				var wg sync.WaitGroup
				for k := 0; k < g; k++ {
					wg.Add(1)
					v := sh
					if !shared {
						v = mk()
					}
					go func(k int) {
						defer wg.Done()
						<-start
						if k%3 == 1 {
							runtime.Gosched()
						}
						ds := runOne(v)
						if len(ds) == 1 && ds[0] == "BUDGET" {
							mu.Lock()
							budget++
							mu.Unlock()
						} else if fmt.Sprint(ds) != fmt.Sprint(solo) {
							mu.Lock()
							diverged++
							if first == nil {
								first = ds
							}
							mu.Unlock()
						}
					}(k)
				}
				close(start)
				wg.Wait()
			}
		}()
		select {
		case <-done:
		case <-time.After(180 * time.Second):
			rec["deadlock"] = true
		}
		rec["diverged"], rec["first_diverged"], rec["budget"] = diverged, first, budget
		rec["runs"] = g * reps
		return w.write(rec)
	})
	if err != nil {
		return err
	}
	return w.close()
}
