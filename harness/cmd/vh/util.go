package main

import (
	"os"
	"sync"
)

func readFile(path string) (string, error) {
	b, err := os.ReadFile(path)
	return string(b), err
}

// parallel runs f(0..n-1) on j goroutines.
func parallel(n, j int, f func(int)) {
	var wg sync.WaitGroup
	ch := make(chan int)
	for w := 0; w < j; w++ {
		wg.Add(1)
		go func() {
			defer wg.Done()
			for i := range ch {
				f(i)
			}
		}()
	}
	for i := 0; i < n; i++ {
		ch <- i
	}
	close(ch)
	wg.Wait()
}
