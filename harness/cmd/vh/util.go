package main

import "os"

func readFile(path string) (string, error) {
	b, err := os.ReadFile(path)
	return string(b), err
}
