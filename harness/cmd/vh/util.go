package main

import (
	"bytes"
	"context"
	"encoding/json"
	"errors"
	"os"
	"runtime/metrics"
	"sync"
	"sync/atomic"
	"time"
)

// guardCtx is a context whose Done() counts the interpreter's polls. It is
// closed from the k-th poll on (k > 0: cancellation at exactly that poll, no
// hook needed) and also when a budget is exhausted (maxPolls, wall clock, heap),
// in which case budget is set and the run is outside the claim.
type guardCtx struct {
	context.Context
	k, n, maxPolls int
	deadline       time.Time
	budget, fired  bool
	closed, open   chan struct{}
	cancel         context.CancelCauseFunc
}

const heapLimit = 3 << 30

// errGuardCause is the CAUSE the context is cancelled with: Next must return the context's error (context.Canceled),
// not whatever context.Cause reports.
var errGuardCause = errors.New("verif: cancellation cause (must not be returned by Next)")

func newGuardCtx(k, maxPolls int, d time.Duration) *guardCtx {
	inner, cancel := context.WithCancelCause(context.Background())
	c := &guardCtx{Context: inner, k: k, maxPolls: maxPolls, deadline: time.Now().Add(d),
		closed: make(chan struct{}), open: make(chan struct{}), cancel: cancel}
	close(c.closed)
	return c
}

var heapSample = []metrics.Sample{{Name: "/memory/classes/heap/objects:bytes"}}
var heapMu sync.Mutex

func heapBytes() uint64 {
	heapMu.Lock()
	defer heapMu.Unlock()
	metrics.Read(heapSample)
	return heapSample[0].Value.Uint64()
}

func (c *guardCtx) Done() <-chan struct{} {
	c.n++
	if c.fired {
		return c.closed
	}
	if c.k > 0 && c.n >= c.k {
		c.fired = true
		c.cancel(errGuardCause)
		return c.closed
	}
	if c.maxPolls > 0 && c.n >= c.maxPolls ||
		c.n%128 == 0 && (time.Now().After(c.deadline) || heapBytes() > heapLimit) {
		c.fired, c.budget = true, true
		c.cancel(errGuardCause)
		return c.closed
	}
	return c.open
}

func (c *guardCtx) Err() error {
	if c.fired {
		return context.Canceled
	}
	return nil
}

func readFile(path string) (string, error) {
	b, err := os.ReadFile(path)
	return string(b), err
}

// parallel runs f(0..n-1) on j goroutines.
func parallel(n, j int, f func(int)) {
	var wg sync.WaitGroup
	ch := make(chan int)
	for w := 0; w < j; w++ {
		wg.Add(1)
		go func() {
			defer wg.Done()
			for i := range ch {
				f(i)
			}
		}()
	}
	for i := 0; i < n; i++ {
		ch <- i
	}
	close(ch)
	wg.Wait()
}

// watchdog runs f in its own goroutine and gives up after d: a run that neither
// returns nor reacts to its (already cancelled) context is hung inside the
// interpreter. The goroutine is abandoned; the process exits when the batch is done.
func watchdog(d time.Duration, f func()) (hung bool) {
	done := make(chan struct{})
	go func() {
		defer close(done)
		f()
	}()
	select {
	case <-done:
		return false
	case <-time.After(d):
		return true
	}
}

// runBatch processes cases on j workers and writes every record as soon as it is ready
// (one line). f must call beat() whenever it starts a new run of the real code. If no
// beat arrives for `limit`, the case is hung inside the real code (it neither returns nor
// reacts to its cancelled context): its record is hang(case), and the process exits at
// once with status 3 so that the runaway goroutine dies; the orchestrator restarts the
// command on the cases not reported yet (lib/vcheck.py run_restartable).
func runBatch(in, out string, j int, limit time.Duration, f func(map[string]any, func()) map[string]any, hang func(map[string]any) map[string]any) error {
	var cases []map[string]any
	if err := readNDJSON(in, func(c map[string]any) error { cases = append(cases, c); return nil }); err != nil {
		return err
	}
	fh, err := os.OpenFile(out, os.O_CREATE|os.O_WRONLY|os.O_APPEND, 0o644)
	if err != nil {
		return err
	}
	var mu sync.Mutex
	write := func(rec map[string]any) {
		b, err := json.Marshal(rec)
		if err != nil {
			b, _ = json.Marshal(map[string]any{"id": rec["id"], "marshal_error": err.Error()})
		}
		mu.Lock()
		fh.Write(append(b, '\n'))
		mu.Unlock()
	}
	parallel(len(cases), j, func(i int) {
		var rec map[string]any
		var last atomic.Int64
		last.Store(time.Now().UnixNano())
		done := make(chan struct{})
		go func() {
			defer close(done)
			rec = f(cases[i], func() { last.Store(time.Now().UnixNano()) })
		}()
		tick := time.NewTicker(100 * time.Millisecond)
		defer tick.Stop()
		for {
			select {
			case <-done:
				write(rec)
				return
			case <-tick.C:
				if time.Since(time.Unix(0, last.Load())) > limit {
					write(hang(cases[i]))
					mu.Lock()
					fh.Sync()
					os.Exit(3)
				}
			}
		}
	})
	return fh.Close()
}

// capBuffer keeps at most max bytes of what is written to it and counts everything: the stdout / stderr of a child
// process that prints without end must not exhaust the memory of the harness.
type capBuffer struct {
	buf        bytes.Buffer // not embedded: io.Copy must go through Write, not through Buffer.ReadFrom
	max, total int
}

func (b *capBuffer) String() string { return b.buf.String() }
func (b *capBuffer) Bytes() []byte  { return b.buf.Bytes() }
func (b *capBuffer) Len() int       { return b.buf.Len() }

func (b *capBuffer) Write(p []byte) (int, error) {
	b.total += len(p)
	if room := b.max - b.buf.Len(); room > 0 {
		if len(p) > room {
			b.buf.Write(p[:room])
		} else {
			b.buf.Write(p)
		}
	}
	return len(p), nil
}
