package main

import (
	"context"
	"os"
	"runtime/metrics"
	"sync"
	"time"
)

// guardCtx is a context whose Done() counts the interpreter's polls. It is
// closed from the k-th poll on (k > 0: cancellation at exactly that poll, no
// hook needed) and also when a budget is exhausted (maxPolls, wall clock, heap),
// in which case budget is set and the run is outside the claim.
type guardCtx struct {
	context.Context
	k, n, maxPolls int
	deadline       time.Time
	budget, fired  bool
	closed, open   chan struct{}
}

const heapLimit = 3 << 30

func newGuardCtx(k, maxPolls int, d time.Duration) *guardCtx {
	c := &guardCtx{Context: context.Background(), k: k, maxPolls: maxPolls, deadline: time.Now().Add(d),
		closed: make(chan struct{}), open: make(chan struct{})}
	close(c.closed)
	return c
}

var heapSample = []metrics.Sample{{Name: "/memory/classes/heap/objects:bytes"}}
var heapMu sync.Mutex

func heapBytes() uint64 {
	heapMu.Lock()
	defer heapMu.Unlock()
	metrics.Read(heapSample)
	return heapSample[0].Value.Uint64()
}

func (c *guardCtx) Done() <-chan struct{} {
	c.n++
	if c.fired {
		return c.closed
	}
	if c.k > 0 && c.n >= c.k {
		c.fired = true
		return c.closed
	}
	if c.maxPolls > 0 && c.n >= c.maxPolls ||
		c.n%128 == 0 && (time.Now().After(c.deadline) || heapBytes() > heapLimit) {
		c.fired, c.budget = true, true
		return c.closed
	}
	return c.open
}

func (c *guardCtx) Err() error {
	if c.fired {
		return context.Canceled
	}
	return nil
}

func readFile(path string) (string, error) {
	b, err := os.ReadFile(path)
	return string(b), err
}

// parallel runs f(0..n-1) on j goroutines.
func parallel(n, j int, f func(int)) {
	var wg sync.WaitGroup
	ch := make(chan int)
	for w := 0; w < j; w++ {
		wg.Add(1)
		go func() {
			defer wg.Done()
			for i := range ch {
				f(i)
			}
		}()
	}
	for i := 0; i < n; i++ {
		ch <- i
	}
	close(ch)
	wg.Wait()
}

// watchdog runs f in its own goroutine and gives up after d: a run that neither
// returns nor reacts to its (already cancelled) context is hung inside the
// interpreter. The goroutine is abandoned; the process exits when the batch is done.
func watchdog(d time.Duration, f func()) (hung bool) {
	done := make(chan struct{})
	go func() {
		defer close(done)
		f()
	}()
	select {
	case <-done:
		return false
	case <-time.After(d):
		return true
	}
}
