package main

// C15: run the real cmd/gojq binary on a command line + stdin and record
// stdout / stderr / exit status; optionally run the LIBRARY on the same parsed
// inputs and record what its iterator yields (values, first error, halt).
// Generic recording only: what the command must do with these events is
// decided by spec/Cli.tla.

import (
	"bytes"
	"context"
	"encoding/json"
	"flag"
	"fmt"
	"io"
	"math"
	"math/big"
	"os/exec"
	"strconv"
	"strings"
	"time"
	"unicode/utf8"

	"github.com/itchyny/gojq"

	"verif/harness/vlib"
)

func init() {
	subcmds["c15run"] = cmdC15Run
}

// c15Text encodes process output as code points (the model's text), or raw bytes if it is not UTF-8.
func c15Text(b []byte) (any, bool) {
	if !utf8.Valid(b) {
		bs := make([]any, len(b))
		for i, c := range b {
			bs[i] = int(c)
		}
		return bs, false
	}
	return vlib.Cps(string(b)), true
}

// c15Exec runs the binary once.
func c15Exec(gojqBin string, argv []string, stdin string, timeout time.Duration) vlib.M {
	ctx, cancel := context.WithTimeout(context.Background(), timeout)
	defer cancel()
	cmd := exec.CommandContext(ctx, gojqBin, argv...)
	cmd.Stdin = strings.NewReader(stdin)
	cmd.Env = []string{"HOME=/nonexistent", "PATH=/usr/bin:/bin", "NO_COLOR=1"}
	so, se := &capBuffer{max: 32 << 20}, &capBuffer{max: 4 << 20}
	cmd.Stdout, cmd.Stderr = so, se
	err := cmd.Run()
	obs := vlib.M{}
	if ctx.Err() != nil {
		obs["timeout"] = true
		return obs
	}
	code := 0
	if err != nil {
		ee, ok := err.(*exec.ExitError)
		if !ok {
			obs["execerr"] = err.Error()
			return obs
		}
		code = ee.ExitCode() // -1 when killed by a signal
	}
	obs["exit"] = code
	var ok1, ok2 bool
	obs["stdout"], ok1 = c15Text(so.Bytes())
	obs["stderr"], ok2 = c15Text(se.Bytes())
	if !ok1 || !ok2 {
		obs["badutf8"] = true
	}
	if bytes.Contains(se.Bytes(), []byte("goroutine ")) && bytes.Contains(se.Bytes(), []byte("panic")) {
		obs["panic"] = true
	}
	return obs
}

// c15Unrep reports values whose printed text depends on the Go representation,
// which the tagged encoding does not keep: negative zero, json.Number literals
// that are not in canonical form.
func c15Unrep(v any) bool {
	switch v := v.(type) {
	case float64:
		return v == 0 && math.Signbit(v)
	case json.Number:
		s := v.String()
		if strings.ContainsAny(s, "eE") {
			return true
		}
		if strings.Contains(s, ".") {
			f, err := strconv.ParseFloat(s, 64)
			return err != nil || strconv.FormatFloat(f, 'f', -1, 64) != s
		}
		z, ok := new(big.Int).SetString(s, 10)
		return !ok || z.String() != s
	case []any:
		for _, x := range v {
			if c15Unrep(x) {
				return true
			}
		}
	case map[string]any:
		for _, x := range v {
			if c15Unrep(x) {
				return true
			}
		}
	}
	return false
}

// c15Side collects the calls of the command-provided functions `debug` and `stderr` made while a run executes
// (the library user's functions: the harness only records that they were called, with which value, in order).
type c15Side struct {
	evs   *[]any
	unrep bool
}

func (s *c15Side) fn(kind string) func(any, []any) any {
	return func(v any, _ []any) any {
		if s.evs != nil {
			if c15Unrep(v) {
				s.unrep = true
			}
			*s.evs = append(*s.evs, vlib.M{"k": kind, "v": vlib.EncVal(v)})
		}
		return v
	}
}

// c15Events runs code on v and records what Next() yields up to and including the first error,
// interleaved with the debug/stderr calls.
func c15Events(code *gojq.Code, side *c15Side, v any, maxOut int, budget time.Duration) (evs []any, flags vlib.M) {
	evs, flags = []any{}, vlib.M{}
	side.evs, side.unrep = &evs, false
	defer func() {
		side.evs = nil
		if side.unrep {
			flags["unrep"] = true
		}
		if e := recover(); e != nil {
			flags["panic"] = fmt.Sprint(e)
		}
	}()
	ctx, cancel := context.WithTimeout(context.Background(), budget)
	defer cancel()
	it := code.RunWithContext(ctx, v)
	for {
		x, ok := it.Next()
		if !ok {
			return
		}
		if err, ok := x.(error); ok {
			if err == context.DeadlineExceeded || err == context.Canceled {
				flags["long"] = true
				return
			}
			if he, ok := err.(*gojq.HaltError); ok {
				if c15Unrep(he.Value()) {
					flags["unrep"] = true
				}
				evs = append(evs, vlib.M{"k": "halt", "v": vlib.EncVal(he.Value()), "c": he.ExitCode()})
				return
			}
			msg := err.Error()
			if !utf8.ValidString(msg) {
				flags["unrep"] = true
			}
			ev := vlib.M{"k": "err", "msg": vlib.Cps(msg)}
			if ec, ok := err.(interface{ ExitCode() int }); ok {
				ev["c"] = ec.ExitCode()
			}
			evs = append(evs, ev)
			return
		}
		if c15Unrep(x) {
			flags["unrep"] = true
		}
		evs = append(evs, vlib.M{"k": "val", "v": vlib.EncVal(x)})
		if len(evs) > maxOut {
			flags["long"] = true
			return
		}
	}
}

// c15Lib: the library on the same parsed inputs: on every document, on null (-n) and on the array of all
// documents (-s). Which of these the command uses is the specification's business.
func c15Lib(query, stdin string, maxOut int, budget time.Duration) vlib.M {
	res := vlib.M{}
	merge := func(f vlib.M) {
		for k, v := range f {
			res[k] = v
		}
	}
	// the documents, decoded as the command decodes them (encoding/json, UseNumber)
	dec := json.NewDecoder(strings.NewReader(stdin))
	dec.UseNumber()
	docs := []any{}
	bad := false
	for {
		var v any
		if err := dec.Decode(&v); err != nil {
			bad = err != io.EOF
			break
		}
		docs = append(docs, v)
	}
	res["bad"] = bad
	res["docs"], res["onull"], res["oslurp"] = []any{}, []any{}, []any{}
	q, err := gojq.Parse(query)
	if err != nil {
		res["query"] = "parse"
		return res
	}
	side := &c15Side{}
	code, err := gojq.Compile(q,
		gojq.WithFunction("debug", 0, 0, side.fn("dbg")),
		gojq.WithFunction("stderr", 0, 0, side.fn("stderr")))
	if err != nil {
		res["query"] = "compile"
		return res
	}
	res["query"] = "ok"
	evs, f := c15Events(code, side, nil, maxOut, budget)
	res["onull"] = evs
	merge(f)
	if !bad {
		evs, f := c15Events(code, side, docs, maxOut, budget)
		res["oslurp"] = evs
		merge(f)
	}
	runs := []any{}
	for _, d := range docs {
		evs, f := c15Events(code, side, d, maxOut, budget)
		runs = append(runs, evs)
		merge(f)
	}
	res["docs"] = runs
	return res
}

// cmdC15Run: cases {id, argv:[...], stdin:"...", lib?:{query}} ->
// records {id, obs:{stdout, stderr, exit | timeout ...}, lib?:{...}}.
func cmdC15Run(args []string) error {
	// doubles the value model does not spell are rendered by the library's own encoder: the command must print exactly that text
	vlib.FloatText = func(f float64) string {
		b, err := gojq.Marshal(f)
		if err != nil {
			return "?"
		}
		return string(b)
	}
	fs := flag.NewFlagSet("c15run", flag.ExitOnError)
	in := fs.String("in", "", "cases ndjson")
	out := fs.String("out", "", "records ndjson")
	bin := fs.String("gojq", "", "path of the cmd/gojq binary")
	maxOut := fs.Int("maxout", 60, "library outputs per run before the run is cut")
	budget := fs.Duration("budget", time.Second, "time per library run")
	tmo := fs.Duration("timeout", 10*time.Second, "time per process")
	par := fs.Int("j", 8, "parallel workers")
	fs.Parse(args)
	var cases []map[string]any
	if err := readNDJSON(*in, func(c map[string]any) error { cases = append(cases, c); return nil }); err != nil {
		return err
	}
	recs := make([]vlib.M, len(cases))
	parallel(len(cases), *par, func(i int) {
		c := cases[i]
		argv := []string{}
		for _, a := range c["argv"].([]any) {
			argv = append(argv, a.(string))
		}
		stdin, _ := c["stdin"].(string)
		rec := vlib.M{"id": c["id"], "obs": c15Exec(*bin, argv, stdin, *tmo)}
		if l, ok := c["lib"].(map[string]any); ok {
			rec["lib"] = c15Lib(l["query"].(string), stdin, *maxOut, *budget)
		}
		recs[i] = rec
	})
	w, err := newNDWriter(*out)
	if err != nil {
		return err
	}
	for _, r := range recs {
		if err := w.write(r); err != nil {
			return err
		}
	}
	return w.close()
}
