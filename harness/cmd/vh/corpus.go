package main

import (
	"flag"
	"os"

	"github.com/itchyny/go-yaml"

	"verif/harness/vlib"
)

func init() { subcmds["corpus"] = cmdCorpus }

// cmdCorpus converts cli/test.yaml into ndjson (name, args, input, expected, error, exit_code, env).
func cmdCorpus(args []string) error {
	fs := flag.NewFlagSet("corpus", flag.ExitOnError)
	in := fs.String("in", "/repo/cli/test.yaml", "test.yaml")
	out := fs.String("out", "", "ndjson")
	fs.Parse(args)
	b, err := os.ReadFile(*in)
	if err != nil {
		return err
	}
	var tests []map[string]any
	if err := yaml.Unmarshal(b, &tests); err != nil {
		return err
	}
	w, err := newNDWriter(*out)
	if err != nil {
		return err
	}
	for i, t := range tests {
		t["id"] = i
		if err := w.write(vlib.M(t)); err != nil {
			return err
		}
	}
	return w.close()
}
